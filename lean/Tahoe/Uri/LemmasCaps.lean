import Tahoe.Uri.Lemmas
import Tahoe.Uri.Caps
/-! Helper lemmas for C15/C16 at the level of whole patterns and cap objects. -/
namespace Tahoe.Uri
set_option maxRecDepth 100000
set_option linter.unusedSimpArgs false

/-! ### whole patterns -/

theorem match2 (last : Piece) (hlast : matchPieces [last] [] = some []) (g1 g2 : Bytes) (h1 : ok128 g1) (h2 : ok256 g2) :
    matchPieces [g128, .colon, g256, last] (g1 ++ colon ++ g2) = some [g1, g2] := by
  have e : g1 ++ colon ++ g2 = g1 ++ (58 :: (g2 ++ [])) := by simp [colon]
  rw [e, mp_g128 _ _ _ h1, mp_colon, mp_g256 _ _ _ h2, hlast]; rfl

theorem match5 (g1 g2 d1 d2 d3 : Bytes) (h1 : ok128 g1) (h2 : ok256 g2) (n1 : okNum d1) (n2 : okNum d2) (n3 : okNum d3) :
    matchPieces [g128, .colon, g256, .colon, .number true, .colon, .number true, .colon, .number true, .dollar]
      (g1 ++ colon ++ g2 ++ colon ++ d1 ++ colon ++ d2 ++ colon ++ d3) = some [g1, g2, d1, d2, d3] := by
  have e : g1 ++ colon ++ g2 ++ colon ++ d1 ++ colon ++ d2 ++ colon ++ d3
      = g1 ++ (58 :: (g2 ++ (58 :: (d1 ++ (58 :: (d2 ++ (58 :: (d3 ++ [])))))))) := by simp [colon]
  rw [e, mp_g128 _ _ _ h1, mp_colon, mp_g256 _ _ _ h2, mp_colon, mp_num _ _ _ n1 (stops_colon_digit _), mp_colon,
    mp_num _ _ _ n2 (stops_colon_digit _), mp_colon, mp_num _ _ _ n3 (stops_nil _), mp_dollar_nil]; rfl

theorem match1 (g : Bytes) (h : litBodyOk g = true) : matchPieces [.litBody, .dollar] g = some [g] := by
  have := mp_lit [.dollar] g [] h (stops_nil _)
  rw [List.append_nil] at this
  rw [this, mp_dollar_nil]; rfl

theorem match2_inv (last : Piece) (body : Bytes) (gs : List Bytes)
    (h : matchPieces [g128, .colon, g256, last] body = some gs) :
    ∃ g1 g2 tail gs', body = g1 ++ colon ++ g2 ++ tail ∧ ok128 g1 ∧ ok256 g2 ∧ gs = g1 :: g2 :: gs' ∧
      matchPieces [last] tail = some gs' := by
  obtain ⟨g1, r1, gs1, e1, o1, q1, h1⟩ := mp_g128_inv _ _ _ h
  obtain ⟨r2, e2, h2⟩ := mp_colon_inv _ _ _ h1
  obtain ⟨g2, r3, gs3, e3, o2, q3, h3⟩ := mp_g256_inv _ _ _ h2
  refine ⟨g1, g2, r3, gs3, ?_, o1, o2, by rw [q1, q3], h3⟩
  rw [e1, e2, e3]; simp [colon]

theorem match5_inv (body : Bytes) (gs : List Bytes)
    (h : matchPieces [g128, .colon, g256, .colon, .number true, .colon, .number true, .colon, .number true, .dollar] body
      = some gs) :
    ∃ g1 g2 d1 d2 d3 tail, body = g1 ++ colon ++ g2 ++ colon ++ d1 ++ colon ++ d2 ++ colon ++ d3 ++ tail ∧
      ok128 g1 ∧ ok256 g2 ∧ okNum d1 ∧ okNum d2 ∧ okNum d3 ∧ gs = [g1, g2, d1, d2, d3] ∧ (tail = [] ∨ tail = [10]) := by
  obtain ⟨g1, r1, gs1, e1, o1, q1, h1⟩ := mp_g128_inv _ _ _ h
  obtain ⟨r2, e2, h2⟩ := mp_colon_inv _ _ _ h1
  obtain ⟨g2, r3, gs3, e3, o2, q3, h3⟩ := mp_g256_inv _ _ _ h2
  obtain ⟨r4, e4, h4⟩ := mp_colon_inv _ _ _ h3
  obtain ⟨d1, r5, gs5, e5, n1, q5, h5⟩ := mp_num_inv _ _ _ h4
  obtain ⟨r6, e6, h6⟩ := mp_colon_inv _ _ _ h5
  obtain ⟨d2, r7, gs7, e7, n2, q7, h7⟩ := mp_num_inv _ _ _ h6
  obtain ⟨r8, e8, h8⟩ := mp_colon_inv _ _ _ h7
  obtain ⟨d3, r9, gs9, e9, n3, q9, h9⟩ := mp_num_inv _ _ _ h8
  obtain ⟨q10, ht⟩ := mp_dollar_inv _ _ h9
  refine ⟨g1, g2, d1, d2, d3, r9, ?_, o1, o2, n1, n2, n3, by rw [q1, q3, q5, q7, q9, q10], ht⟩
  rw [e1, e2, e3, e4, e5, e6, e7, e8, e9]; simp [colon]

theorem match1_inv (body : Bytes) (gs : List Bytes) (h : matchPieces [.litBody, .dollar] body = some gs) :
    ∃ g tail, body = g ++ tail ∧ litBodyOk g = true ∧ gs = [g] ∧ (tail = [] ∨ tail = [10]) := by
  obtain ⟨g, r, gs', e, ok, q1, h1⟩ := mp_lit_inv _ _ _ h
  obtain ⟨q2, ht⟩ := mp_dollar_inv _ _ h1
  exact ⟨g, r, e, ok, by rw [q1, q2], ht⟩

/-! ### file caps -/

theorem ok128_b2a (x : Bytes) (h : x.length = 16) : ok128 (b2a x) :=
  ⟨by rw [length_b2a, h], litBodyOk_b2a x⟩
theorem ok256_b2a (x : Bytes) (h : x.length = 32) : ok256 (b2a x) :=
  ⟨by rw [length_b2a, h], litBodyOk_b2a x⟩
theorem okNum_natToDec (n : Nat) : okNum (natToDec n) := ⟨(natToDec_spec n).2.1, (natToDec_spec n).2.2⟩
theorem decToNat_natToDec (n : Nat) : decToNat (natToDec n) = n := (natToDec_spec n).1

theorem len_a2b_128 (g : Bytes) (h : ok128 g) : (a2b g).length = 16 := by rw [length_a2b g h.2, h.1]
theorem len_a2b_256 (g : Bytes) (h : ok256 g) : (a2b g).length = 32 := by rw [length_a2b g h.2, h.1]

/-- parsing the body a well-formed file cap prints gives the cap back -/
theorem initBody_body (f : FileCap) (h : f.wf = true) : initBody f.kind f.body = some f := by
  cases f with
  | chk a ueb k n size =>
    simp only [FileCap.wf, Bool.and_eq_true, beq_iff_eq] at h
    simp only [initBody, initBodyWith, FileCap.kind, FileCap.body, spec]
    rw [match5 _ _ _ _ _ (ok128_b2a a h.1) (ok256_b2a ueb h.2) (okNum_natToDec k) (okNum_natToDec n) (okNum_natToDec size)]
    simp only [Option.bind_some, buildFile, a2b_b2a, decToNat_natToDec]
  | chkV a ueb k n size =>
    simp only [FileCap.wf, Bool.and_eq_true, beq_iff_eq] at h
    simp only [initBody, initBodyWith, FileCap.kind, FileCap.body, spec]
    rw [match5 _ _ _ _ _ (ok128_b2a a h.1) (ok256_b2a ueb h.2) (okNum_natToDec k) (okNum_natToDec n) (okNum_natToDec size)]
    simp only [Option.bind_some, buildFile, a2b_b2a, decToNat_natToDec]
  | lit d =>
    simp only [initBody, initBodyWith, FileCap.kind, FileCap.body, spec]
    rw [match1 _ (litBodyOk_b2a d)]
    simp only [Option.bind_some, buildFile, a2b_b2a]
  | ssk a fp | sskRo a fp | sskV a fp =>
    simp only [FileCap.wf, Bool.and_eq_true, beq_iff_eq] at h
    simp only [initBody, initBodyWith, FileCap.kind, FileCap.body, spec]
    rw [match2 _ mp_dollar_nil _ _ (ok128_b2a a h.1) (ok256_b2a fp h.2)]
    simp only [Option.bind_some, buildFile, a2b_b2a]
  | mdmf a fp | mdmfRo a fp | mdmfV a fp =>
    simp only [FileCap.wf, Bool.and_eq_true, beq_iff_eq] at h
    simp only [initBody, initBodyWith, FileCap.kind, FileCap.body, spec]
    rw [match2 _ mp_cod_nil _ _ (ok128_b2a a h.1) (ok256_b2a fp h.2)]
    simp only [Option.bind_some, buildFile, a2b_b2a]


def isMdmfKind (k : FileKind) : Prop := k = .mdmf ∨ k = .mdmfRo ∨ k = .mdmfV

/-- what may follow the canonical text of a cap of kind `k` in an accepted string -/
def tailOk (k : FileKind) (tail : Bytes) : Prop :=
  tail = [] ∨ tail = [10] ∨ (isMdmfKind k ∧ ∃ r, tail = 58 :: r)

theorem num_back (d : Bytes) (h : okNum d) : natToDec (decToNat d) = d := natToDec_decToNat d h.1 h.2

theorem two_field_inv (k : FileKind) (last : Piece) (mk : Bytes → Bytes → FileCap)
    (hspec : spec k = [g128, .colon, g256, last])
    (hlast : ∀ t gs', matchPieces [last] t = some gs' → gs' = [])
    (hbuild : ∀ g1 g2, buildFile k [g1, g2] = some (mk (a2b g1) (a2b g2)))
    (hbody : ∀ a fp, (mk a fp).body = b2a a ++ colon ++ b2a fp)
    (hwf : ∀ a fp, (mk a fp).wf = (a.length == 16 && fp.length == 32))
    (hkind : ∀ a fp, (mk a fp).kind = k)
    (body : Bytes) (f : FileCap) (h : initBody k body = some f) :
    f.kind = k ∧ f.wf = true ∧ ∃ tail, body = f.body ++ tail ∧ matchPieces [last] tail = some [] := by
  simp only [initBody, initBodyWith, hspec] at h
  cases hm : matchPieces [g128, .colon, g256, last] body with
  | none => simp [hm] at h
  | some gs =>
    obtain ⟨g1, g2, tail, gs', e, o1, o2, q, hl⟩ := match2_inv last body gs hm
    have hgs' : gs' = [] := hlast _ _ hl
    subst hgs'
    rw [hm, q] at h
    simp only [Option.bind_some, hbuild, Option.some.injEq] at h
    subst h
    refine ⟨hkind _ _, ?_, tail, ?_, hl⟩
    · rw [hwf, len_a2b_128 g1 o1, len_a2b_256 g2 o2]; rfl
    · rw [hbody, b2a_a2b g1 o1.2, b2a_a2b g2 o2.2, e]

theorem chk_like_inv (k : FileKind) (mk : Bytes → Bytes → Nat → Nat → Nat → FileCap)
    (hspec : spec k = [g128, .colon, g256, .colon, .number true, .colon, .number true, .colon, .number true, .dollar])
    (hbuild : ∀ g1 g2 d1 d2 d3, buildFile k [g1, g2, d1, d2, d3] =
      some (mk (a2b g1) (a2b g2) (decToNat d1) (decToNat d2) (decToNat d3)))
    (hbody : ∀ a u x y z, (mk a u x y z).body =
      b2a a ++ colon ++ b2a u ++ colon ++ natToDec x ++ colon ++ natToDec y ++ colon ++ natToDec z)
    (hwf : ∀ a u x y z, (mk a u x y z).wf = (a.length == 16 && u.length == 32))
    (hkind : ∀ a u x y z, (mk a u x y z).kind = k)
    (body : Bytes) (f : FileCap) (h : initBody k body = some f) :
    f.kind = k ∧ f.wf = true ∧ ∃ tail, body = f.body ++ tail ∧ (tail = [] ∨ tail = [10]) := by
  simp only [initBody, initBodyWith, hspec] at h
  cases hm : matchPieces [g128, .colon, g256, .colon, .number true, .colon, .number true, .colon, .number true, .dollar]
      body with
  | none => simp [hm] at h
  | some gs =>
    obtain ⟨g1, g2, d1, d2, d3, tail, e, o1, o2, n1, n2, n3, q, ht⟩ := match5_inv body gs hm
    rw [hm, q] at h
    simp only [Option.bind_some, hbuild, Option.some.injEq] at h
    subst h
    refine ⟨hkind _ _ _ _ _, ?_, tail, ?_, ht⟩
    · rw [hwf, len_a2b_128 g1 o1, len_a2b_256 g2 o2]; rfl
    · rw [hbody, b2a_a2b g1 o1.2, b2a_a2b g2 o2.2, num_back d1 n1, num_back d2 n2, num_back d3 n3, e]

theorem dollar_tail (t : Bytes) (h : matchPieces [.dollar] t = some []) : t = [] ∨ t = [10] := (mp_dollar_inv t [] h).2

/-- every body that `init_from_string` accepts is the printed body of the returned (well-formed)
cap followed by nothing, by one newline, or — MDMF only — by `:` and anything -/
theorem initBody_inv (k : FileKind) (body : Bytes) (f : FileCap) (h : initBody k body = some f) :
    f.kind = k ∧ f.wf = true ∧ ∃ tail, body = f.body ++ tail ∧ tailOk k tail := by
  cases k with
  | chk =>
    obtain ⟨a, b, t, e, ht⟩ := chk_like_inv .chk FileCap.chk rfl (fun _ _ _ _ _ => rfl) (fun _ _ _ _ _ => rfl)
      (fun _ _ _ _ _ => rfl) (fun _ _ _ _ _ => rfl) body f h
    exact ⟨a, b, t, e, by rcases ht with ht | ht <;> simp [tailOk, ht]⟩
  | chkV =>
    obtain ⟨a, b, t, e, ht⟩ := chk_like_inv .chkV FileCap.chkV rfl (fun _ _ _ _ _ => rfl) (fun _ _ _ _ _ => rfl)
      (fun _ _ _ _ _ => rfl) (fun _ _ _ _ _ => rfl) body f h
    exact ⟨a, b, t, e, by rcases ht with ht | ht <;> simp [tailOk, ht]⟩
  | lit =>
    simp only [initBody, initBodyWith, spec] at h
    cases hm : matchPieces [.litBody, .dollar] body with
    | none => simp [hm] at h
    | some gs =>
      obtain ⟨g, tail, e, ok, q, ht⟩ := match1_inv body gs hm
      rw [hm, q] at h
      simp only [Option.bind_some, buildFile, Option.some.injEq] at h
      subst h
      refine ⟨rfl, rfl, tail, ?_, by rcases ht with ht | ht <;> simp [tailOk, ht]⟩
      simp only [FileCap.body, b2a_a2b g ok, e]
  | ssk =>
    obtain ⟨a, b, t, e, ht⟩ := two_field_inv .ssk .dollar FileCap.ssk rfl (fun t g h => (mp_dollar_inv t g h).1)
      (fun _ _ => rfl) (fun _ _ => rfl) (fun _ _ => rfl) (fun _ _ => rfl) body f h
    exact ⟨a, b, t, e, by rcases dollar_tail t ht with ht | ht <;> simp [tailOk, ht]⟩
  | sskRo =>
    obtain ⟨a, b, t, e, ht⟩ := two_field_inv .sskRo .dollar FileCap.sskRo rfl (fun t g h => (mp_dollar_inv t g h).1)
      (fun _ _ => rfl) (fun _ _ => rfl) (fun _ _ => rfl) (fun _ _ => rfl) body f h
    exact ⟨a, b, t, e, by rcases dollar_tail t ht with ht | ht <;> simp [tailOk, ht]⟩
  | sskV =>
    obtain ⟨a, b, t, e, ht⟩ := two_field_inv .sskV .dollar FileCap.sskV rfl (fun t g h => (mp_dollar_inv t g h).1)
      (fun _ _ => rfl) (fun _ _ => rfl) (fun _ _ => rfl) (fun _ _ => rfl) body f h
    exact ⟨a, b, t, e, by rcases dollar_tail t ht with ht | ht <;> simp [tailOk, ht]⟩
  | mdmf =>
    obtain ⟨a, b, t, e, ht⟩ := two_field_inv .mdmf .colonOrDollar FileCap.mdmf rfl (fun t g h => (mp_cod_inv t g h).1)
      (fun _ _ => rfl) (fun _ _ => rfl) (fun _ _ => rfl) (fun _ _ => rfl) body f h
    refine ⟨a, b, t, e, ?_⟩
    rcases (mp_cod_inv t [] ht).2 with ht | ht | ht
    · simp [tailOk, ht]
    · simp [tailOk, ht]
    · exact Or.inr (Or.inr ⟨Or.inl rfl, ht⟩)
  | mdmfRo =>
    obtain ⟨a, b, t, e, ht⟩ := two_field_inv .mdmfRo .colonOrDollar FileCap.mdmfRo rfl (fun t g h => (mp_cod_inv t g h).1)
      (fun _ _ => rfl) (fun _ _ => rfl) (fun _ _ => rfl) (fun _ _ => rfl) body f h
    refine ⟨a, b, t, e, ?_⟩
    rcases (mp_cod_inv t [] ht).2 with ht | ht | ht
    · simp [tailOk, ht]
    · simp [tailOk, ht]
    · exact Or.inr (Or.inr ⟨Or.inr (Or.inl rfl), ht⟩)
  | mdmfV =>
    obtain ⟨a, b, t, e, ht⟩ := two_field_inv .mdmfV .colonOrDollar FileCap.mdmfV rfl (fun t g h => (mp_cod_inv t g h).1)
      (fun _ _ => rfl) (fun _ _ => rfl) (fun _ _ => rfl) (fun _ _ => rfl) body f h
    refine ⟨a, b, t, e, ?_⟩
    rcases (mp_cod_inv t [] ht).2 with ht | ht | ht
    · simp [tailOk, ht]
    · simp [tailOk, ht]
    · exact Or.inr (Or.inr ⟨Or.inr (Or.inr rfl), ht⟩)



/-! ### dispatch -/

def fileNeed : FileKind → Need
  | .ssk | .mdmf => .writeable
  | .sskRo | .mdmfRo => .mutable
  | _ => .none

theorem dispatch_file (k : FileKind) (rest : Bytes) :
    dispatch (filePrefix k ++ rest) = some (.file k (fileNeed k), rest) := by
  cases k <;> simp [dispatch, dispatchTable, filePrefix, dirPrefix, List.find?, List.isPrefixOf, fileNeed]

theorem dispatch_dir (k : FileKind) (rest : Bytes) :
    dispatch (dirPrefix k ++ rest) = some (.dir k (fileNeed k), rest) := by
  cases k <;> simp [dispatch, dispatchTable, filePrefix, dirPrefix, List.find?, List.isPrefixOf, fileNeed]

theorem dispatch_inv (s : Bytes) (e : Entry) (body : Bytes) (h : dispatch s = some (e, body)) :
    ∃ p, (p, e) ∈ dispatchTable ∧ s = p ++ body := by
  simp only [dispatch] at h
  cases hf : dispatchTable.find? (fun pe => pe.1.isPrefixOf s) with
  | none => simp [hf] at h
  | some pe =>
    simp only [hf, Option.map_some, Option.some.injEq, Prod.mk.injEq] at h
    obtain ⟨rfl, rfl⟩ := h
    have hmem := List.mem_of_find?_eq_some hf
    have hp := List.find?_some hf
    simp only [List.isPrefixOf_iff_prefix] at hp
    obtain ⟨t, ht⟩ := hp
    refine ⟨pe.1, hmem, ?_⟩
    rw [← ht]; simp

theorem table_file (p : Bytes) (k : FileKind) (n : Need) (h : (p, Entry.file k n) ∈ dispatchTable) :
    p = filePrefix k ∧ n = fileNeed k := by
  simp [dispatchTable] at h
  rcases h with h | h | h | h | h | h | h | h | h <;> obtain ⟨rfl, rfl, rfl⟩ := h <;> exact ⟨rfl, rfl⟩

theorem table_dir (p : Bytes) (k : FileKind) (n : Need) (h : (p, Entry.dir k n) ∈ dispatchTable) :
    p = dirPrefix k ∧ n = fileNeed k := by
  simp [dispatchTable] at h
  rcases h with h | h | h | h | h | h | h | h | h <;> obtain ⟨rfl, rfl, rfl⟩ := h <;> exact ⟨rfl, rfl⟩

/-- the input of `from_string` without its (single) alleged prefix -/
def allegedBody (u : Bytes) : Bytes :=
  if immPrefix.isPrefixOf u then u.drop 4 else if roPrefix.isPrefixOf u then u.drop 3 else u

theorem stripAlleged_body (deep : Bool) (u : Bytes) : (stripAlleged deep u).2.2 = allegedBody u := by
  simp only [stripAlleged, allegedBody]
  split
  · rfl
  · split <;> rfl

/-- kind of the file cap inside a known cap (for a directory: the kind naming its class) -/
def Cap.tailKind : Cap → FileKind
  | .file f => f.kind
  | .dir dk _ => dk
  | .unknown .. => .lit

/-- Main inversion: a string accepted as a known cap is, after its alleged prefix, the canonical
text of the returned cap followed by a permitted tail; and the returned cap is well-formed. -/
theorem fromString_known (deep : Bool) (u : Bytes) (c : Cap) (h : fromString deep u = c) (hk : c.isKnown = true) :
    c.wf = true ∧ ∃ base tail, c.toString = some base ∧ allegedBody u = base ++ tail ∧ tailOk c.tailKind tail := by
  have hb := stripAlleged_body deep u
  simp only [fromString, fromStringWith] at h
  generalize hsa : stripAlleged deep u = sa at h hb
  obtain ⟨canM, canW, s⟩ := sa
  simp only at h hb
  subst hb
  cases hd : dispatch (allegedBody u) with
  | none => rw [hd] at h; subst h; simp [Cap.isKnown] at hk
  | some eb =>
    obtain ⟨e, body⟩ := eb
    obtain ⟨p, hmem, hs⟩ := dispatch_inv _ _ _ hd
    rw [hd] at h
    cases e with
    | file k need =>
      obtain ⟨rfl, rfl⟩ := table_file p k need hmem
      simp only at h
      split at h
      · cases hi : initBodyWith spec k body with
        | none => rw [hi] at h; subst h; simp [Cap.isKnown] at hk
        | some f =>
          rw [hi] at h; subst h
          obtain ⟨hkind, hwf, tail, hbody, htail⟩ := initBody_inv k body f hi
          refine ⟨hwf, filePrefix f.kind ++ f.body, tail, rfl, ?_, by simpa [Cap.tailKind, hkind] using htail⟩
          rw [hs, hbody, hkind]; simp
      · subst h; simp [Cap.isKnown] at hk
    | dir k need =>
      obtain ⟨rfl, rfl⟩ := table_dir p k need hmem
      simp only at h
      split at h
      · cases hi : initBodyWith spec k body with
        | none => rw [hi] at h; subst h; simp [Cap.isKnown] at hk
        | some f =>
          rw [hi] at h; subst h
          obtain ⟨hkind, hwf, tail, hbody, htail⟩ := initBody_inv k body f hi
          refine ⟨by simp [Cap.wf, hkind, hwf], dirPrefix k ++ f.body, tail, by simp [Cap.toString, hkind], ?_,
            by simpa [Cap.tailKind] using htail⟩
          rw [hs, hbody]; simp
      · subst h; simp [Cap.isKnown] at hk
    | futureWriteable => simp only at h; split at h <;> (subst h; simp [Cap.isKnown] at hk)
    | futureMutable => simp only at h; split at h <;> (subst h; simp [Cap.isKnown] at hk)


theorem stripAlleged_file (deep : Bool) (k : FileKind) (rest : Bytes) :
    stripAlleged deep (filePrefix k ++ rest) = (!deep, !deep, filePrefix k ++ rest) := by
  cases k <;> simp [stripAlleged, immPrefix, roPrefix, filePrefix, List.isPrefixOf]

theorem stripAlleged_dir (deep : Bool) (k : FileKind) (rest : Bytes) :
    stripAlleged deep (dirPrefix k ++ rest) = (!deep, !deep, dirPrefix k ++ rest) := by
  cases k <;> simp [stripAlleged, immPrefix, roPrefix, dirPrefix, List.isPrefixOf]

/-- the context lets a cap of this kind through: not deep-immutable, or the kind is neither a
write cap nor a read cap of a mutable object -/
def ctxAllows (deep : Bool) (k : FileKind) : Bool := needOk (!deep) (!deep) (fileNeed k)

theorem fromString_toString (deep : Bool) (c : Cap) (hwf : c.wf = true) (hctx : ctxAllows deep c.tailKind = true) :
    ∃ s, c.toString = some s ∧ fromString deep s = c := by
  cases c with
  | file f =>
    refine ⟨filePrefix f.kind ++ f.body, rfl, ?_⟩
    simp only [Cap.wf] at hwf
    simp only [Cap.tailKind, ctxAllows] at hctx
    have hi := initBody_body f hwf
    simp only [initBody] at hi
    simp only [fromString, fromStringWith, stripAlleged_file, dispatch_file, hctx, if_true, hi]
  | dir dk f =>
    simp only [Cap.wf, Bool.and_eq_true, beq_iff_eq] at hwf
    obtain ⟨rfl, hwf⟩ := hwf
    refine ⟨dirPrefix f.kind ++ f.body, by simp [Cap.toString], ?_⟩
    simp only [Cap.tailKind, ctxAllows] at hctx
    have hi := initBody_body f hwf
    simp only [initBody] at hi
    simp only [fromString, fromStringWith, stripAlleged_dir, dispatch_dir, hctx, if_true, hi]
  | unknown u e => simp [Cap.wf] at hwf


theorem ctxAllows_false (k : FileKind) : ctxAllows false k = true := by cases k <;> rfl

/-- an `UnknownURI` returned by `from_string` carries the original string (prefix included) -/
theorem fromString_unknown_keeps (deep : Bool) (u u' : Bytes) (e : Option Err) (h : fromString deep u = .unknown u' e) :
    u' = u := by
  simp only [fromString, fromStringWith] at h
  split at h <;> (try split at h) <;> (try split at h) <;>
    first | (injection h with h1 h2; exact h1.symm) | (cases h)

end Tahoe.Uri
