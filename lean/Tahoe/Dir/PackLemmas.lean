import Tahoe.Dir.Pack
import Tahoe.Dir.EditLemmas
/-! Helper lemmas for C19: netstring framing is uniquely readable from the front; `put` on fresh keys
    appends; invariants of the unpack loop. -/
namespace Tahoe.Dir.Pack
open Tahoe.Dir.Edit (lookup put lookup_put)

/-! ### netstrings -/

theorem decDigits_isDigit (n : Nat) : ∀ d ∈ decDigits n, isDigit d = true := by
  induction n using Nat.strongRecOn with
  | _ n ih =>
    intro d hd
    rw [decDigits] at hd
    split at hd
    · simp only [List.mem_singleton] at hd
      subst hd
      simp only [isDigit, UInt8.toNat_ofNat', Bool.and_eq_true, decide_eq_true_eq]
      omega
    · rcases List.mem_append.mp hd with h | h
      · exact ih (n / 10) (by omega) d h
      · simp only [List.mem_singleton] at h
        subst h
        simp only [isDigit, UInt8.toNat_ofNat', Bool.and_eq_true, decide_eq_true_eq]
        omega

theorem decDigits_ne_nil (n : Nat) : decDigits n ≠ [] := by
  rw [decDigits]; split <;> simp

theorem decVal_append_single (ds : Bytes) (d : UInt8) :
    decVal (ds ++ [d]) = 10 * decVal ds + (d.toNat - 48) := by
  simp [decVal, List.foldl_append]

theorem decVal_decDigits (n : Nat) : decVal (decDigits n) = n := by
  induction n using Nat.strongRecOn with
  | _ n ih =>
    rw [decDigits]
    split
    · simp only [decVal, List.foldl_cons, List.foldl_nil, UInt8.toNat_ofNat']
      omega
    · rw [decVal_append_single, ih (n / 10) (by omega)]
      simp only [UInt8.toNat_ofNat']
      omega

theorem takeWhile_digits (ds rest : Bytes) (h : ∀ d ∈ ds, isDigit d = true) :
    (ds ++ 58 :: rest).takeWhile isDigit = ds := by
  induction ds with
  | nil => simp [List.takeWhile, isDigit]
  | cons a t ih =>
    have ha : isDigit a = true := h a (by simp)
    simp only [List.cons_append, List.takeWhile, ha]
    rw [ih (fun d hd => h d (by simp [hd]))]

theorem dropWhile_digits (ds rest : Bytes) (h : ∀ d ∈ ds, isDigit d = true) :
    (ds ++ 58 :: rest).dropWhile isDigit = 58 :: rest := by
  induction ds with
  | nil => simp [List.dropWhile, isDigit]
  | cons a t ih =>
    have ha : isDigit a = true := h a (by simp)
    simp only [List.cons_append, List.dropWhile, ha]
    exact ih (fun d hd => h d (by simp [hd]))

/-- a netstring at the front of any data is read back exactly, leaving the rest -/
theorem readNetstring_netstring (s r : Bytes) : readNetstring (netstring s ++ r) = some (s, r) := by
  have hd := decDigits_isDigit s.length
  have e : netstring s ++ r = decDigits s.length ++ 58 :: (s ++ 44 :: r) := by
    simp [netstring, List.append_assoc]
  rw [e]
  unfold readNetstring
  simp only [takeWhile_digits _ _ hd, dropWhile_digits _ _ hd, decVal_decDigits]
  have hne : (decDigits s.length).isEmpty = false := by
    cases h : decDigits s.length with
    | nil => exact absurd h (decDigits_ne_nil _)
    | cons a t => rfl
  simp only [hne]
  have h1 : ¬ (s ++ 44 :: r).length < s.length + 1 := by simp
  have h2 : ((s ++ 44 :: r).drop s.length).head? = some 44 := by simp
  have h3 : (s ++ 44 :: r).take s.length = s := by simp
  have h4 : (s ++ 44 :: r).drop (s.length + 1) = r := by
    rw [← List.drop_drop]; simp
  simp [h1, h2, h3, h4]

theorem netstring_ne_nil (s : Bytes) : netstring s ≠ [] := by
  unfold netstring
  cases h : decDigits s.length with
  | nil => exact absurd h (decDigits_ne_nil _)
  | cons a t => simp

theorem netstring_length_pos (s r : Bytes) : 0 < (netstring s ++ r).length := by
  cases h : netstring s with
  | nil => exact absurd h (netstring_ne_nil _)
  | cons a t => simp

theorem split4_entry (a b c d : Bytes) :
    split4 (netstring a ++ (netstring b ++ (netstring c ++ netstring d))) = some (a, b, c, d) := by
  unfold split4
  rw [readNetstring_netstring]
  simp only []
  rw [readNetstring_netstring]
  simp only []
  rw [readNetstring_netstring]
  simp only []
  have : netstring d = netstring d ++ [] := by simp
  rw [this, readNetstring_netstring]

/-- the outer loop reads back a concatenation of netstrings -/
theorem splitAll_concat (es : List Bytes) (fuel : Nat)
    (hf : (es.map netstring).flatten.length ≤ fuel) :
    splitAll fuel (es.map netstring).flatten = some es := by
  induction es generalizing fuel with
  | nil => cases fuel <;> rfl
  | cons e rest ih =>
    simp only [List.map_cons, List.flatten_cons] at hf ⊢
    have hpos := netstring_length_pos e (rest.map netstring).flatten
    cases fuel with
    | zero => omega
    | succ f =>
      cases hd : netstring e ++ (rest.map netstring).flatten with
      | nil => rw [hd] at hpos; simp at hpos
      | cons x xs =>
        simp only [splitAll]
        rw [← hd, readNetstring_netstring]
        simp only []
        have hlen : (rest.map netstring).flatten.length ≤ f := by
          have : (netstring e).length ≥ 1 := by
            cases h : netstring e with
            | nil => exact absurd h (netstring_ne_nil _)
            | cons a t => simp
          simp only [List.length_append] at hf
          omega
        rw [ih f hlen]
        rfl

/-! ### dict insertion -/

theorem put_fresh {κ α : Type} [DecidableEq κ] (k : κ) (v : α) (l : List (κ × α))
    (h : k ∉ l.map (·.1)) : put k v l = l ++ [(k, v)] := by
  induction l with
  | nil => rfl
  | cons p rest ih =>
    obtain ⟨a, b⟩ := p
    simp only [List.map_cons, List.mem_cons, not_or] at h
    have hne : ¬ a = k := fun e => h.1 e.symm
    simp only [put, hne, if_false, List.cons_append]
    rw [ih h.2]

theorem keys_put {κ α : Type} [DecidableEq κ] (k : κ) (v : α) (l : List (κ × α)) (x : κ) :
    x ∈ (put k v l).map (·.1) ↔ x = k ∨ x ∈ l.map (·.1) := by
  induction l with
  | nil => simp [put]
  | cons p rest ih =>
    obtain ⟨a, b⟩ := p
    simp only [put]
    split
    · rename_i hak; subst hak
      simp
    · simp only [List.map_cons, List.mem_cons, ih]
      constructor
      · rintro (h | h | h)
        · right; left; exact h
        · left; exact h
        · right; right; exact h
      · rintro (h | h | h)
        · right; left; exact h
        · left; exact h
        · right; right; exact h

theorem nodup_put {κ α : Type} [DecidableEq κ] (k : κ) (v : α) (l : List (κ × α))
    (h : (l.map (·.1)).Nodup) : ((put k v l).map (·.1)).Nodup := by
  induction l with
  | nil => simp [put]
  | cons p rest ih =>
    obtain ⟨a, b⟩ := p
    simp only [List.map_cons, List.nodup_cons] at h
    simp only [put]
    split
    · rename_i hak; subst hak
      simp only [List.map_cons, List.nodup_cons]
      exact h
    · rename_i hak
      simp only [List.map_cons, List.nodup_cons]
      refine ⟨?_, ih h.2⟩
      intro hm
      rcases (keys_put k v rest a).mp hm with h1 | h1
      · exact hak h1
      · exact h.1 h1

theorem mem_put {κ α : Type} [DecidableEq κ] (k : κ) (v : α) (l : List (κ × α)) (e : κ × α)
    (h : e ∈ put k v l) : e = (k, v) ∨ e ∈ l := by
  induction l with
  | nil => simp [put] at h; left; exact h
  | cons p rest ih =>
    obtain ⟨a, b⟩ := p
    simp only [put] at h
    split at h
    · simp only [List.mem_cons] at h
      rcases h with h | h
      · left; exact h
      · right; simp [h]
    · simp only [List.mem_cons] at h
      rcases h with h | h
      · right; simp [h]
      · rcases ih h with h1 | h1
        · left; exact h1
        · right; simp [h1]

/-! ### pack -/

section
variable {Name J Key : Type} [DecidableEq Name] (W : World Name J Key)

/-- the raw entry `pack` frames for a child: the cached one, or a fresh encoding -/
def rawEntry (writekey : Option Key) (deepImmutable hasAux : Bool) (e : Name × Child J) : Bytes :=
  match cachedEntry hasAux e.2 with
  | some b => b
  | none => entryBytes W writekey deepImmutable e.1 e.2

/-- what `pack` checks of every child -/
def packable (deepImmutable : Bool) (e : Name × Child J) : Prop :=
  e.2.node.err = false ∧ (deepImmutable = true → e.2.node.allowedInImmutable = true)

theorem packEntry_ok (key : Option Key) (dI aux : Bool) (e : Name × Child J) (h : packable dI e) :
    packEntry W key dI aux e.1 e.2 = .ok (netstring (rawEntry W key dI aux e)) := by
  obtain ⟨h1, h2⟩ := h
  unfold packEntry rawEntry
  simp only [h1, Bool.false_eq_true, if_false]
  cases dI with
  | false => simp only [Bool.false_and, Bool.false_eq_true, if_false]; cases cachedEntry aux e.2 <;> rfl
  | true => simp only [h2 rfl, Bool.not_true, Bool.and_false, Bool.false_eq_true, if_false]
            cases cachedEntry aux e.2 <;> rfl

theorem packEntry_ok_inv (key : Option Key) (dI aux : Bool) (e : Name × Child J) (b : Bytes)
    (h : packEntry W key dI aux e.1 e.2 = .ok b) : packable dI e := by
  unfold packEntry at h
  split at h
  · cases h
  · rename_i h1
    split at h
    · cases h
    · rename_i h2
      refine ⟨by simpa using h1, ?_⟩
      intro hd; subst hd
      simpa using h2

theorem pack_ok (key : Option Key) (dI aux : Bool) (c : List (Name × Child J)) (h : ∀ e ∈ c, packable dI e) :
    pack W key dI aux c = .ok ((c.map (rawEntry W key dI aux)).map netstring).flatten := by
  induction c with
  | nil => rfl
  | cons e rest ih =>
    obtain ⟨name, ch⟩ := e
    have h1 := packEntry_ok W key dI aux (name, ch) (h _ (by simp))
    simp only [] at h1
    simp only [pack, h1, ih (fun e he => h e (by simp [he]))]
    rfl

theorem pack_ok_inv (key : Option Key) (dI aux : Bool) (c : List (Name × Child J)) (data : Bytes)
    (h : pack W key dI aux c = .ok data) : ∀ e ∈ c, packable dI e := by
  induction c generalizing data with
  | nil => intro e he; cases he
  | cons e rest ih =>
    obtain ⟨name, ch⟩ := e
    simp only [pack] at h
    cases h1 : packEntry W key dI aux name ch with
    | error x => rw [h1] at h; cases h
    | ok b =>
      rw [h1] at h
      simp only [] at h
      cases h2 : pack W key dI aux rest with
      | error x => rw [h2] at h; cases h
      | ok bs =>
        intro e he
        simp only [List.mem_cons] at he
        rcases he with he | he
        · subst he; exact packEntry_ok_inv W key dI aux (name, ch) b h1
        · exact ih bs h2 e he

/-- a plain dict has no cached entries: packing with `has_aux = False` does not look at `aux` -/
def clearAux (e : Name × Child J) : Name × Child J := (e.1, ⟨e.2.node, e.2.metadata, none⟩)

theorem pack_plain_ignores_aux (key : Option Key) (dI : Bool) (c : List (Name × Child J)) :
    pack W key dI false c = pack W key dI false (c.map clearAux) := by
  induction c with
  | nil => rfl
  | cons e rest ih =>
    obtain ⟨name, ch⟩ := e
    have h1 : packEntry W key dI false name ch = packEntry W key dI false name ⟨ch.node, ch.metadata, none⟩ := by
      simp [packEntry, cachedEntry, entryBytes]
    simp only [pack, List.map_cons, clearAux, h1, ih]

/-! ### unpack -/

/-- what the unpack loop makes of the entry of one packed child -/
def keep (cx : DirCtx Key) (e : Name × Child J) : Option (Name × Child J) :=
  let n' := canon W cx e.2.node
  if n'.err then none
  else if cx.mutableDir || n'.allowedInImmutable then
    some (e.1, ⟨n', e.2.metadata, some (entryBytes W cx.writekey (!cx.mutableDir) e.1 e.2)⟩)
  else none

/-- hypotheses on the abstract parts of the world and on the directory context -/
structure RoundTrip (cx : DirCtx Key) : Prop where
  name : ∀ n, W.decodeName (W.encodeName n) = some n
  json : ∀ j, W.loads (W.dumps j) = some j
  crypt : ∀ k m, W.decrypt k (W.encrypt k m) = m
  keyOfWriteable : cx.writeable = true → cx.writekey.isSome = true
  noKeyIfImmutable : cx.mutableDir = false → cx.writekey = none

theorem ite_some_lift {α : Type} (a b : Bool) (x : α) :
    (if a = true then some none else if b = true then some (some x) else some none) =
      some (if a = true then none else if b = true then some x else none) := by
  cases a <;> cases b <;> rfl

theorem unpackEntry_entry (cx : DirCtx Key) (H : RoundTrip W cx) (e : Name × Child J)
    (hn : W.norm e.1 = e.1) :
    unpackEntry W cx (entryBytes W cx.writekey (!cx.mutableDir) e.1 e.2) = some (keep W cx e) := by
  have hent : entryBytes W cx.writekey (!cx.mutableDir) e.1 e.2 =
      netstring (W.encodeName e.1) ++ (netstring (stripPrefixForRo (e.2.node.ro.getD []) (!cx.mutableDir)) ++
        (netstring (rwcapField W cx.writekey (e.2.node.rw.getD [])) ++ netstring (W.dumps e.2.metadata))) := rfl
  unfold unpackEntry
  rw [hent, split4_entry, ← hent]
  simp only [H.name, H.json, hn]
  have hrw : (!cx.mutableDir && decide ((rwcapField W cx.writekey (e.2.node.rw.getD [])).length > 0)) = false := by
    cases hm : cx.mutableDir with
    | true => simp
    | false => simp [rwcapField, H.noKeyIfImmutable hm]
  simp only [hrw, Bool.false_eq_true, if_false]
  have hdec : rwOf W cx (rwcapField W cx.writekey (e.2.node.rw.getD [])) =
      (if cx.writeable = true then e.2.node.rw.getD [] else []) := by
    unfold rwOf
    cases hw : cx.writeable with
    | false => simp
    | true =>
      have := H.keyOfWriteable hw
      cases hk : cx.writekey with
      | none => rw [hk] at this; cases this
      | some k => simp [rwcapField, H.crypt]
  rw [hdec]
  unfold keep canon
  exact ite_some_lift _ _ _

/-- the loop over the entries of a packed child list with distinct normalized names -/
theorem unpackEntries_packed (cx : DirCtx Key) (H : RoundTrip W cx) (c : List (Name × Child J))
    (acc : List (Name × Child J))
    (hnorm : ∀ e ∈ c, W.norm e.1 = e.1) (hnd : (c.map (·.1)).Nodup)
    (hdisj : ∀ e ∈ c, e.1 ∉ acc.map (·.1)) :
    unpackEntries W cx acc (c.map (fun e => entryBytes W cx.writekey (!cx.mutableDir) e.1 e.2)) =
      some (acc ++ c.filterMap (keep W cx)) := by
  induction c generalizing acc with
  | nil => simp [unpackEntries]
  | cons e rest ih =>
    simp only [List.map_cons, unpackEntries]
    rw [unpackEntry_entry W cx H e (hnorm e (by simp))]
    simp only [List.map_cons, List.nodup_cons] at hnd
    have hrest_norm : ∀ x ∈ rest, W.norm x.1 = x.1 := fun x hx => hnorm x (by simp [hx])
    cases hk : keep W cx e with
    | none =>
      simp only [List.filterMap_cons, hk]
      exact ih acc hrest_norm hnd.2 (fun x hx => hdisj x (by simp [hx]))
    | some kept =>
      obtain ⟨name, ch⟩ := kept
      have hname : name = e.1 := by
        unfold keep at hk
        simp only [] at hk
        split at hk
        · cases hk
        · split at hk
          · cases hk; rfl
          · cases hk
      subst hname
      simp only [List.filterMap_cons, hk]
      have hfresh : e.1 ∉ acc.map (·.1) := hdisj e (by simp)
      rw [put_fresh _ _ _ hfresh]
      rw [ih (acc ++ [(e.1, ch)]) hrest_norm hnd.2]
      · simp
      · intro x hx
        simp only [List.map_append, List.map_cons, List.map_nil, List.mem_append, List.mem_singleton, not_or]
        refine ⟨hdisj x (by simp [hx]), ?_⟩
        intro heq
        apply hnd.1
        rw [← heq]
        exact List.mem_map_of_mem hx

/-- `unpack ∘ pack` on a child list with distinct normalized names -/
theorem unpack_pack_core (cx : DirCtx Key) (H : RoundTrip W cx) (c : List (Name × Child J))
    (hnorm : ∀ e ∈ c, W.norm e.1 = e.1) (hnd : (c.map (·.1)).Nodup) (data : Bytes)
    (hpack : pack W cx.writekey (!cx.mutableDir) false c = .ok data) :
    unpack W cx data = some (c.filterMap (keep W cx)) := by
  have hp := pack_ok_inv W _ _ _ c data hpack
  rw [pack_ok W _ _ _ c hp] at hpack
  cases hpack
  unfold unpack
  have hraw : c.map (rawEntry W cx.writekey (!cx.mutableDir) false) =
      c.map (fun e => entryBytes W cx.writekey (!cx.mutableDir) e.1 e.2) := by
    apply List.map_congr_left
    intro e _
    simp [rawEntry, cachedEntry]
  rw [hraw, splitAll_concat _ _ (Nat.le_refl _)]
  simp only []
  have := unpackEntries_packed W cx H c [] hnorm hnd (fun e _ => by simp)
  simpa using this

/-! ### invariants of the unpack loop on arbitrary data -/

theorem unpackEntries_all (cx : DirCtx Key) (P : Name × Child J → Prop)
    (hentry : ∀ entry x, unpackEntry W cx entry = some (some x) → P x)
    (es : List Bytes) (acc l : List (Name × Child J)) (hacc : ∀ x ∈ acc, P x)
    (h : unpackEntries W cx acc es = some l) : ∀ x ∈ l, P x := by
  induction es generalizing acc with
  | nil => simp only [unpackEntries] at h; cases h; exact hacc
  | cons e rest ih =>
    simp only [unpackEntries] at h
    cases he : unpackEntry W cx e with
    | none => rw [he] at h; cases h
    | some r =>
      rw [he] at h
      cases r with
      | none => exact ih acc hacc h
      | some x =>
        obtain ⟨name, c⟩ := x
        apply ih (put name c acc) _ h
        intro y hy
        rcases mem_put name c acc y hy with h1 | h1
        · rw [h1]; exact hentry e (name, c) he
        · exact hacc y h1

theorem unpackEntries_nodup (cx : DirCtx Key) (es : List Bytes) (acc l : List (Name × Child J))
    (hacc : (acc.map (·.1)).Nodup) (h : unpackEntries W cx acc es = some l) : (l.map (·.1)).Nodup := by
  induction es generalizing acc with
  | nil => simp only [unpackEntries] at h; cases h; exact hacc
  | cons e rest ih =>
    simp only [unpackEntries] at h
    cases he : unpackEntry W cx e with
    | none => rw [he] at h; cases h
    | some r =>
      rw [he] at h
      cases r with
      | none => exact ih acc hacc h
      | some x =>
        obtain ⟨name, c⟩ := x
        exact ih (put name c acc) (nodup_put name c acc hacc) h

/-- what every child that `_unpack_contents` returns satisfies -/
theorem unpackEntry_some (cx : DirCtx Key) (entry : Bytes) (x : Name × Child J)
    (h : unpackEntry W cx entry = some (some x)) :
    (∃ raw, x.1 = W.norm raw) ∧ x.2.node.err = false ∧
    (cx.mutableDir = false → x.2.node.allowedInImmutable = true) ∧
    (∃ rw ro, x.2.node = createFromCap W.classify rw ro (!cx.mutableDir) ∧ (cx.writeable = false → rw = none)) := by
  unfold unpackEntry at h
  split at h
  · cases h
  · split at h
    · cases h
    · split at h
      · cases h
      · rename_i namex _
        simp only [] at h
        split at h
        · cases h
        · rename_i herr
          split at h
          · rename_i hallow
            split at h
            · cases h
            · cases h
              refine ⟨⟨namex, rfl⟩, by simpa using herr, ?_, ?_⟩
              · intro hm
                simpa [hm] using hallow
              · refine ⟨_, _, rfl, ?_⟩
                intro hw
                simp [rwOf, hw, rstripOrNone, rstrip]
          · cases h

end

end Tahoe.Dir.Pack
