import Tahoe.Dir.TraverseReach
import Tahoe.Dir.TraverseTerm
/-! C21: the deep-stats counters against the reported verify caps. -/
namespace Tahoe.Dir.Traverse

section
variable {V : Type} [DecidableEq V] (g : Graph V)

/-- a counter of verified nodes of one kind counts the reported verify caps of that kind -/
theorem countNodes_verified (kindV : V → Kind) (hkindV : ∀ n v, (g n).verifier = some v → kindV v = (g n).kind)
    (k : Kind) (out : List Event) :
    countNodes g (fun i => i.kind == k && i.verifier.isSome) out =
      (reportedV g out).countP (fun v => kindV v == k) := by
  unfold countNodes reportedV
  rw [List.countP_filterMap]
  apply List.countP_congr
  intro e _
  cases e with
  | enterDir n => simp
  | addNode n p =>
    cases hv : (g n).verifier with
    | none => simp [hv]
    | some v => simp [hv, hkindV n v hv]

/-- `walker.finish()` is reached only with an empty stack -/
theorem run_done_stack (fuel : Nat) (s : St V) (h : (run g fuel s).2 = true) : (run g fuel s).1.stack = [] := by
  induction fuel generalizing s with
  | zero =>
    simp only [run] at h ⊢
    cases hst : s.stack with
    | nil => rfl
    | cons a b => rw [hst] at h; simp at h
  | succ f ih =>
    simp only [run] at h ⊢
    cases hs : step g s with
    | none =>
      unfold step at hs
      cases hst : s.stack with
      | nil => rfl
      | cons top rest => rw [hst] at hs; cases hs
    | some s' =>
      rw [hs] at h
      exact ih s' h

/-- a potential for graphs in which no directory has a literal directory as a child: every visit costs 1 -/
theorem litCost_one_zero (kids : List (String × Nat))
    (h : ∀ name c, (name, c) ∈ kids → ¬ ((g c).kind = .dir ∧ (g c).verifier = none)) :
    litCost g (fun _ => 1) kids = 0 := by
  induction kids with
  | nil => rfl
  | cons kc rest ih =>
    obtain ⟨name, c⟩ := kc
    have h1 := h name c (by simp)
    have h2 := ih (fun n' c' hm => h n' c' (by simp [hm]))
    simp only [litCost, List.map_cons, List.sum_cons] at h2 ⊢
    simp [h1, h2]

end
end Tahoe.Dir.Traverse

namespace Tahoe.Dir.Traverse

/-- a directory graph with a cycle (0 → 1 → 3 → 1, 1 → 0), a diamond (3 is reached through 1 and through 2),
    a CHK file, and a literal file linked three times -/
def demo : Graph Nat := fun n =>
  match n with
  | 0 => ⟨.dir, some 10, [("a", 1), ("b", 2), ("lit", 5)]⟩
  | 1 => ⟨.dir, some 11, [("up", 0), ("x", 3)]⟩
  | 2 => ⟨.dir, some 12, [("y", 3)]⟩
  | 3 => ⟨.dir, some 13, [("back", 1), ("f", 4), ("l1", 5), ("l2", 5)]⟩
  | 4 => ⟨.file, some 14, []⟩
  | _ => ⟨.file, none, []⟩

theorem demo_big (n : Nat) (h : 6 ≤ n) : demo n = ⟨.file, none, []⟩ := by
  match n, h with
  | n + 6, _ => rfl

end Tahoe.Dir.Traverse
