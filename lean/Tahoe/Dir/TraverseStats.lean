import Tahoe.Dir.TraverseReach
import Tahoe.Dir.TraverseTerm
/-! C21: the deep-stats counters against the reported verify caps. -/
namespace Tahoe.Dir.Traverse

section
variable {V : Type} [DecidableEq V] (g : Graph V)

/-- a counter of verified nodes of one kind counts the reported verify caps of that kind -/
theorem countNodes_verified (kindV : V → Kind) (hkindV : ∀ n v, (g n).verifier = some v → kindV v = (g n).kind)
    (k : Kind) (out : List Event) :
    countNodes g (fun i => i.kind == k && i.verifier.isSome) out =
      (reportedV g out).countP (fun v => kindV v == k) := by
  unfold countNodes reportedV
  rw [List.countP_filterMap]
  apply List.countP_congr
  intro e _
  cases e with
  | enterDir n => simp
  | addNode n p =>
    cases hv : (g n).verifier with
    | none => simp [hv]
    | some v => simp [hv, hkindV n v hv]

/-- `walker.finish()` is reached only with an empty stack -/
theorem run_done_stack (fuel : Nat) (s : St V) (h : (run g fuel s).2 = true) : (run g fuel s).1.stack = [] := by
  induction fuel generalizing s with
  | zero =>
    simp only [run] at h ⊢
    cases hst : s.stack with
    | nil => rfl
    | cons a b => rw [hst] at h; simp at h
  | succ f ih =>
    simp only [run] at h ⊢
    cases hs : step g s with
    | none =>
      unfold step at hs
      cases hst : s.stack with
      | nil => rfl
      | cons top rest => rw [hst] at hs; cases hs
    | some s' =>
      rw [hs] at h
      exact ih s' h

theorem iter_done (k : Nat) (s : St V) (h : step g s = none) : iter g k s = s := by
  induction k with
  | zero => rfl
  | succ n ih => simp only [iter, stepOrStay, h]; exact ih

/-- `run` is `iter` with a completion flag -/
theorem run_eq_iter (k : Nat) (s : St V) : (run g k s).1 = iter g k s := by
  induction k generalizing s with
  | zero => rfl
  | succ n ih =>
    simp only [run, iter, stepOrStay]
    cases hs : step g s with
    | none => simp only []; exact (iter_done g n s hs).symm
    | some s' => exact ih s'

/-- interleaved traversals do not influence each other: whatever the schedule, traversal `i` is where it
    would be after making its own visits alone -/
theorem multiRun_component (sched : List Nat) (f : Nat → St V) (i : Nat) :
    multiRun g sched f i = iter g (sched.count i) (f i) := by
  induction sched generalizing f with
  | nil => rfl
  | cons j rest ih =>
    simp only [multiRun]
    rw [ih]
    by_cases hji : j = i
    · subst hji
      simp [iter]
    · have : ¬ i = j := fun e => hji e.symm
      simp [this, hji, List.count_cons]

theorem iter_add (a b : Nat) (s : St V) : iter g (a + b) s = iter g b (iter g a s) := by
  induction a generalizing s with
  | zero => simp [iter]
  | succ n ih =>
    have : n + 1 + b = (n + b) + 1 := by omega
    rw [this]
    simp only [iter]
    exact ih _

/-- once a walk has finished, more scheduler turns change nothing -/
theorem iter_after_done (fuel k : Nat) (s : St V) (hdone : (run g fuel s).2 = true) (hk : fuel ≤ k) :
    iter g k s = (run g fuel s).1 := by
  have hstack := run_done_stack g fuel s hdone
  have hnone : step g (run g fuel s).1 = none := by
    unfold step; rw [hstack]
  obtain ⟨d, rfl⟩ : ∃ d, k = fuel + d := ⟨k - fuel, by omega⟩
  rw [iter_add, ← run_eq_iter g fuel s]
  exact iter_done g d _ hnone

/-- a potential for graphs in which no directory has a literal directory as a child: every visit costs 1 -/
theorem litCost_one_zero (kids : List (String × Nat))
    (h : ∀ name c, (name, c) ∈ kids → ¬ ((g c).kind = .dir ∧ (g c).verifier = none)) :
    litCost g (fun _ => 1) kids = 0 := by
  induction kids with
  | nil => rfl
  | cons kc rest ih =>
    obtain ⟨name, c⟩ := kc
    have h1 := h name c (by simp)
    have h2 := ih (fun n' c' hm => h n' c' (by simp [hm]))
    simp only [litCost, List.map_cons, List.sum_cons] at h2 ⊢
    simp [h1, h2]

end
end Tahoe.Dir.Traverse

namespace Tahoe.Dir.Traverse

/-- a directory graph with a cycle (0 → 1 → 3 → 1, 1 → 0), a diamond (3 is reached through 1 and through 2),
    a CHK file, and a literal file linked three times -/
def demo : Graph Nat := fun n =>
  match n with
  | 0 => ⟨.dir, some 10, [("a", 1), ("b", 2), ("lit", 5)]⟩
  | 1 => ⟨.dir, some 11, [("up", 0), ("x", 3)]⟩
  | 2 => ⟨.dir, some 12, [("y", 3)]⟩
  | 3 => ⟨.dir, some 13, [("back", 1), ("f", 4), ("l1", 5), ("l2", 5)]⟩
  | 4 => ⟨.file, some 14, []⟩
  | _ => ⟨.file, none, []⟩

theorem demo_big (n : Nat) (h : 6 ≤ n) : demo n = ⟨.file, none, []⟩ := by
  match n, h with
  | n + 6, _ => rfl

end Tahoe.Dir.Traverse
