/-
Model of the directory *edit* layer of `allmydata/dirnode.py` (C20):

* `update_metadata`                                  → `updateMetadata`
* `Adder.modify` (overwrite ∈ {True, False, ONLY_FILES}) → `adderEntry` / `adderModify`
* `Deleter.modify`                                   → `deleterModify`
* `MetadataSetter.modify`                            → `metadataSetterModify`
* `DirectoryNode.set_node / set_uri / add_file / set_children / set_nodes /
   create_subdirectory / delete / set_metadata_for / move_child_to /
   get / has_child / get_metadata_for / get_child_and_metadata` → `step`

Mathlib-free, executable (driver `Drv/C20.lean`).

Representation choices (each is checked by the correspondence run, none is a repair):

* A directory's children are a Python `dict` keyed by the normalized name; here an association list
  (`put` replaces in place or appends, `erase` removes).  The order of a `dict` is never observed by
  this layer (packing sorts by name; listings are compared as maps).
* `normalize` (`unicodedata.normalize('NFC', ·)`) is the parameter `norm`; nothing is assumed about it
  in the model.  The driver instantiates it with the table of the names of a history.
* A child node is what the edit layer looks at: `IFileNode/IDirectoryNode.providedBy` (`kind`),
  `get_write_uri()` / `get_readonly_uri()` (`rw` / `ro`), `raise_error()` (`err`).  For every known node
  `is_readonly()` holds exactly when `get_write_uri()` is `None` (sampled by the harness), which is how
  `_create_readonly_node` is written here.  Re-creation of the node from the stored caps on the next
  read is C19's subject (pack/unpack round trip); here the stored child *is* its pair of caps.
* Metadata is a `dict`; the key `'tahoe'` (itself a dict) is kept apart from the other keys, so that
  "all keys except `'tahoe'`" is a field.  A `'tahoe'` value that is not a dict cannot be produced by
  the operations below (user-supplied `'tahoe'` is deleted by `update_metadata`) and is not modelled.
* JSON values: a timestamp written by the code (`now`), `null`, or any other value, of which only its
  truthiness (`metadata.get('no-write', False)`) and its identity matter.
* `time.time()` is an input of every operation (`now`); Python floats holding the virtual clock's
  integer seconds are modelled as `Nat`.
* `deleterModify` is `Deleter.modify` with `first_time = True` (what the single-writer histories run);
  `deleterModifyFT` carries the `first_time` argument and `retryLoop` is the UncoordinatedWriteError retry loop.
* A directory is identified by a number; two handles have the same number iff their write URIs are
  equal (what `move_child_to` compares).  `Handle.readonly` is `is_readonly()` of the handle.
-/
namespace Tahoe.Dir.Edit

/-! ### association lists as Python dicts -/

def lookup {κ α : Type} [DecidableEq κ] (k : κ) : List (κ × α) → Option α
  | [] => none
  | (k', v) :: rest => if k' = k then some v else lookup k rest

/-- `d[k] = v`: replace in place, else append -/
def put {κ α : Type} [DecidableEq κ] (k : κ) (v : α) : List (κ × α) → List (κ × α)
  | [] => [(k, v)]
  | (k', v') :: rest => if k' = k then (k, v) :: rest else (k', v') :: put k v rest

/-- `del d[k]` -/
def erase {κ α : Type} [DecidableEq κ] (k : κ) (l : List (κ × α)) : List (κ × α) :=
  l.filter (fun p => !(decide (p.1 = k)))

/-! ### metadata -/

inductive Val where
  | time (t : Nat)                       -- a number (the virtual clock's `now`)
  | null                                 -- JSON null / Python None
  | other (truthy : Bool) (repr : String)  -- any other JSON value
  deriving DecidableEq, Repr

def Val.truthy : Val → Bool
  | .time _ => true          -- a timestamp of the running clock (`time.time()`) is never 0.0
  | .null => false
  | .other b _ => b

structure Meta where
  user : List (String × Val)                 -- every key except 'tahoe'
  tahoe : Option (List (String × Val))       -- the 'tahoe' sub-dict, if the key is present
  deriving DecidableEq, Repr

def Meta.empty : Meta := ⟨[], none⟩

/-- `update_metadata(metadata, new_metadata, now)`. -/
def updateMetadata (metadata : Option Meta) (newMetadata : Option Meta) (now : Nat) : Meta :=
  -- if metadata is None: metadata = {}
  let md := metadata.getD Meta.empty
  -- old_ctime = metadata['ctime'] if present (later tested with `is not None`)
  let oldCtime : Option Val :=
    match lookup "ctime" md.user with
    | some v => if v = Val.null then none else some v
    | none => none
  -- new_metadata replaces everything except 'tahoe', which is carried over from the old metadata
  let md : Meta := match newMetadata with
    | none => md
    | some nm => ⟨nm.user, md.tahoe⟩
  let sysmd := md.tahoe.getD []
  let sysmd := if (lookup "linkcrtime" sysmd).isSome then sysmd
               else put "linkcrtime" (oldCtime.getD (Val.time now)) sysmd
  let sysmd := put "linkmotime" (Val.time now) sysmd
  ⟨md.user, some sysmd⟩

/-- `metadata.get('no-write', False)` as a truth value -/
def Meta.noWrite (m : Meta) : Bool :=
  match lookup "no-write" m.user with
  | some v => v.truthy
  | none => false

def Meta.sys (m : Meta) (k : String) : Option Val :=
  match m.tahoe with
  | some t => lookup k t
  | none => none

/-! ### child nodes -/

inductive Kind where
  | file | dir | unknown
  deriving DecidableEq, Repr

structure Node (C : Type) where
  kind : Kind
  rw : Option C      -- get_write_uri()
  ro : Option C      -- get_readonly_uri()
  err : Bool         -- raise_error() raises (an UnknownNode that recorded an error)
  deriving DecidableEq, Repr

/-- `DirectoryNode._create_readonly_node(node, name)`:
    `if not node.is_unknown() and node.is_readonly(): return node`
    `return self._create_and_validate_node(None, node.get_readonly_uri(), name)` -/
def mkReadonly {C : Type} (n : Node C) : Node C :=
  if n.kind != Kind.unknown && n.rw.isNone then n else { n with rw := none }

abbrev Entry (C : Type) := Node C × Meta
abbrev Children (Name C : Type) := List (Name × Entry C)

inductive Err where
  | notWriteable      -- NotWriteableError
  | existingChild     -- ExistingChildError
  | noSuchChild       -- NoSuchChildError
  | wrongType         -- ChildOfWrongTypeError
  | capError          -- node.raise_error(): MustNotBeUnknownRWError / MustBeDeepImmutableError / …
  | keyError          -- KeyError of get_metadata_for on a missing name
  | assertion         -- `assert not self.is_readonly()` in MutableFileVersion.modify
  deriving DecidableEq, Repr

inductive Overwrite where
  | yes | no | onlyFiles
  deriving DecidableEq, Repr

section
variable {Name C : Type} [DecidableEq Name] (norm : Name → Name)

/-- one iteration of the loop of `Adder.modify` -/
def adderEntry (ow : Overwrite) (now : Nat) (children : Children Name C)
    (e : Name × Node C × Option Meta) : Except Err (Children Name C) :=
  let name := norm e.1
  let child := e.2.1
  -- child.raise_error()
  if child.err then .error .capError else
  match lookup name children with
  | some (old, oldmd) =>
    -- if not self.overwrite: raise ExistingChildError
    if ow = .no then .error .existingChild
    -- if self.overwrite == ONLY_FILES and IDirectoryNode.providedBy(children[name][0])
    else if ow = .onlyFiles && old.kind = .dir then .error .existingChild
    else
      let md := updateMetadata (some oldmd) e.2.2 now
      let child := if md.noWrite then mkReadonly child else child
      .ok (put name (child, md) children)
  | none =>
    let md := updateMetadata none e.2.2 now
    let child := if md.noWrite then mkReadonly child else child
    .ok (put name (child, md) children)

/-- `Adder.modify`: entries in dict order; an exception leaves the directory untouched -/
def adderModify (ow : Overwrite) (now : Nat) (children : Children Name C) :
    List (Name × Node C × Option Meta) → Except Err (Children Name C)
  | [] => .ok children
  | e :: rest =>
    match adderEntry norm ow now children e with
    | .error x => .error x
    | .ok c' => adderModify ow now c' rest

/-- `Deleter.modify` (with `first_time = True`): new children and `deleter.old_child` -/
def deleterModify (namex : Name) (mustExist mustBeDir mustBeFile : Bool) (children : Children Name C) :
    Except Err (Children Name C × Option (Node C)) :=
  let name := norm namex
  match lookup name children with
  | none => if mustExist then .error .noSuchChild else .ok (children, none)
  | some (old, _) =>
    -- unknown children can be removed regardless of must_be_directory / must_be_file
    if mustBeDir && old.kind = .file then .error .wrongType
    else if mustBeFile && old.kind = .dir then .error .wrongType
    else .ok (erase name children, some old)

/-- `Deleter.modify(old_contents, servermap, first_time)` with its `first_time` argument:
    `if first_time and self.must_exist: raise NoSuchChildError` — on a retry a missing child is not an error
    (the first attempt may already have removed it). -/
def deleterModifyFT (firstTime : Bool) (namex : Name) (mustExist mustBeDir mustBeFile : Bool)
    (children : Children Name C) : Except Err (Children Name C × Option (Node C)) :=
  deleterModify norm namex (firstTime && mustExist) mustBeDir mustBeFile children

/-- The retry loop of `MutableFileVersion.modify` as the directory layer sees it: the modifier is applied to the
    contents just read (`first_time = True` the first time); if the publish then fails with
    UncoordinatedWriteError the contents are read again — they may be anything another writer left — and the
    modifier is applied again with `first_time = False`; an exception of the modifier ends the loop.
    `reads` are the contents of the later reads; the result is that of the last application. -/
def retryLoop {R : Type} (modifier : Bool → Children Name C → Except Err R) (first : Bool)
    (c : Children Name C) : List (Children Name C) → Except Err R
  | [] => modifier first c
  | c' :: more =>
    match modifier first c with
    | .error e => .error e
    | .ok _ => retryLoop modifier false c' more

/-- `MetadataSetter.modify` -/
def metadataSetterModify (namex : Name) (md : Meta) (now : Nat) (children : Children Name C) :
    Except Err (Children Name C) :=
  let name := norm namex
  match lookup name children with
  | none => .error .noSuchChild
  | some (child, oldmd) =>
    let m := updateMetadata (some oldmd) (some md) now
    let child := if m.noWrite then mkReadonly child else child
    .ok (put name (child, m) children)

/-! ### directory handles, state, operations -/

structure Handle where
  dir : Nat
  readonly : Bool
  deriving DecidableEq, Repr

abbrev State (Name C : Type) := Nat → Children Name C

def setDir (s : State Name C) (d : Nat) (c : Children Name C) : State Name C :=
  fun d' => if d' = d then c else s d'

inductive Op (Name C : Type) where
  /-- `set_node` (`eager = false`), `set_uri` / `add_file` (`eager = true`: the node is created and
      validated before the read-only test) -/
  | setNode (h : Handle) (namex : Name) (child : Node C) (md : Option Meta) (ow : Overwrite) (eager : Bool)
  /-- `set_children` (`eager`, no read-only test of its own), `set_nodes`, `create_subdirectory`
      (one entry; read-only test first) -/
  | setMany (h : Handle) (entries : List (Name × Node C × Option Meta)) (ow : Overwrite) (eager : Bool)
      (checksReadonly : Bool)
  | delete (h : Handle) (namex : Name) (mustExist mustBeDir mustBeFile : Bool)
  | setMetadata (h : Handle) (namex : Name) (md : Meta)
  | move (h : Handle) (curx : Name) (h2 : Handle) (newx : Option Name) (ow : Overwrite)
  | get (h : Handle) (namex : Name)
  | hasChild (h : Handle) (namex : Name)
  | getMetadata (h : Handle) (namex : Name)

inductive Res (C : Type) where
  | done                       -- a result that carries no information of the model (`self`, the given child)
  | node (n : Option (Node C)) -- `delete` → old child or None; `get` → child
  | redundant                  -- "redundant rename/relink"
  | bool (b : Bool)
  | mdata (m : Meta)
  | err (e : Err)
  deriving DecidableEq, Repr

/-- the name under which `move_child_to` links the child in the new parent -/
def newName (curx : Name) : Option Name → Name
  | none => norm curx          -- new_child_name = current_child_name
  | some n => norm n           -- normalize(new_child_namex)

/-- what `_unpack_contents` of a read-only handle makes of a stored child: `writeable = not
    self.is_readonly()`, so `rw_uri` stays empty and the node is created from the read cap alone -/
def viewThrough (h : Handle) (n : Node C) : Node C :=
  if h.readonly then { n with rw := none } else n

/-- `DirectoryNode.move_child_to` after the read-only test and the normalization of both names -/
def moveCore (now : Nat) (s : State Name C) (h : Handle) (cur : Name) (h2 : Handle)
    (new : Name) (ow : Overwrite) : State Name C × Res C :=
  -- if new_parent.get_write_uri() == from_uri and new_child_name == current_child_name
  if h2.dir = h.dir ∧ new = cur then (s, .redundant) else
  -- d = self.get_child_and_metadata(current_child_name)   (normalizes again)
  match lookup (norm cur) (s h.dir) with
  | none => (s, .err .noSuchChild)
  | some (child, md) =>
    -- new_parent.set_node(new_child_name, child, metadata, overwrite=overwrite)   (Adder normalizes again)
    match adderModify norm ow now (s h2.dir) [(new, child, some md)] with
    | .error e => (s, .err e)
    | .ok c2 =>
      let s1 := setDir s h2.dir c2
      -- self.delete(current_child_name)   (Deleter normalizes again)
      match deleterModify norm cur true false false (s1 h.dir) with
      | .error e => (s1, .err e)
      | .ok (c1, old) => (setDir s1 h.dir c1, .node old)

/-- `DirectoryNode.move_child_to` -/
def moveChild (now : Nat) (s : State Name C) (h : Handle) (curx : Name) (h2 : Handle)
    (newx : Option Name) (ow : Overwrite) : State Name C × Res C :=
  if h.readonly || h2.readonly then (s, .err .notWriteable)
  else moveCore norm now s h (norm curx) h2 (newName norm curx newx) ow

def step (s : State Name C) (now : Nat) : Op Name C → State Name C × Res C
  | .setNode h namex child md ow eager =>
    if eager && child.err then (s, .err .capError)
    else if h.readonly then (s, .err .notWriteable)
    else match adderModify norm ow now (s h.dir) [(namex, child, md)] with
      | .error e => (s, .err e)
      | .ok c => (setDir s h.dir c, .done)
  | .setMany h entries ow eager checksReadonly =>
    if eager && entries.any (fun e => e.2.1.err) then (s, .err .capError)
    else if h.readonly then (s, .err (if checksReadonly then .notWriteable else .assertion))
    else match adderModify norm ow now (s h.dir) entries with
      | .error e => (s, .err e)
      | .ok c => (setDir s h.dir c, .done)
  | .delete h namex mustExist mustBeDir mustBeFile =>
    if h.readonly then (s, .err .notWriteable)
    else match deleterModify norm namex mustExist mustBeDir mustBeFile (s h.dir) with
      | .error e => (s, .err e)
      | .ok (c, old) => (setDir s h.dir c, .node old)
  | .setMetadata h namex md =>
    if h.readonly then (s, .err .notWriteable)
    else match metadataSetterModify norm namex md now (s h.dir) with
      | .error e => (s, .err e)
      | .ok c => (setDir s h.dir c, .done)
  | .move h curx h2 newx ow => moveChild norm now s h curx h2 newx ow
  | .get h namex =>
    match lookup (norm namex) (s h.dir) with
    | some (child, _) => (s, .node (some (viewThrough h child)))
    | none => (s, .err .noSuchChild)
  | .hasChild h namex => (s, .bool (lookup (norm namex) (s h.dir)).isSome)
  | .getMetadata h namex =>
    match lookup (norm namex) (s h.dir) with
    | some (_, md) => (s, .mdata md)
    | none => (s, .err .keyError)

/-- a history: every operation with the clock value at which it runs -/
def run (s : State Name C) : List (Nat × Op Name C) → State Name C × List (Res C)
  | [] => (s, [])
  | (now, op) :: rest =>
    let r := step norm s now op
    let rr := run r.1 rest
    (rr.1, r.2 :: rr.2)

end

end Tahoe.Dir.Edit
