/-
Model of `DirectoryNode.deep_traverse` / `_deep_traverse_dirnode` / `_deep_traverse_dirnode_children`
(`allmydata/dirnode.py`) as a worklist machine on a finite graph (C21).  Mathlib-free, executable
(driver `Drv/C21.lean`).

A *node* is what the traversal holds in its hand: an object seen through one particular cap (the same
mutable directory reached through its write cap and through its read cap are two nodes with the same
verifier).  `verifier` is `get_verify_cap()`: `none` for LIT files, LIT directories and unknown nodes.
`children` is `sorted(children.items())` of `node.list()` (Python's builtin sort of the `str` names is an
input ordering here, as in C19).

The code is a chain of Deferreds that performs a strict depth-first walk, one directory at a time:

    _deep_traverse_dirnode(node, path):        walker.add_node(node, path); children = node.list()
    _deep_traverse_dirnode_children(…):        walker.enter_directory(parent, children)
        for name, child in sorted(children):   unknown  → walker.add_node(child, childpath) at once
                                               verifier is not None and in found → skip
                                               found.add(verifier); append to dirkids / filekids
        then walker.add_node for every filekid, then _deep_traverse_dirnode for every dirkid, in order.

`found` is one set shared by the whole walk.  The recursion over dirkids is modelled by an explicit stack:
the dirkids of a directory are pushed, in order, in front of the pending directories — the same
depth-first order, because a recursive call returns only when the whole subtree is done.  One `step`
processes one directory.  (`found.add(None)` for literals is a no-op for the test `verifier is not None and
verifier in found` and is not modelled.)  The turn break every 100 files, the monitor's cancellation and
the walkers' own Deferreds do not influence the order and are not modelled.
-/
namespace Tahoe.Dir.Traverse

inductive Kind where
  | dir | file | unknown
  deriving DecidableEq, Repr

structure NodeInfo (V : Type) where
  kind : Kind
  verifier : Option V
  children : List (String × Nat)
  deriving Repr

abbrev Graph (V : Type) := Nat → NodeInfo V

abbrev Path := List String

inductive Event where
  | addNode (node : Nat) (path : Path)       -- walker.add_node(node, path)
  | enterDir (node : Nat)                    -- walker.enter_directory(parent, children)
  deriving DecidableEq, Repr

/-- the result of the `for name, (child, metadata) in sorted(children.items())` loop -/
structure Scan (V : Type) where
  found : List V
  unknowns : List Event                      -- add_node calls made during the loop
  files : List (Nat × Path)                  -- filekids
  dirs : List (Nat × Path)                   -- dirkids

section
variable {V : Type} [DecidableEq V] (g : Graph V)

def scan (path : Path) : List (String × Nat) → Scan V → Scan V
  | [], acc => acc
  | (name, c) :: rest, acc =>
    let childpath := path ++ [name]
    match (g c).kind with
    | .unknown => scan path rest { acc with unknowns := acc.unknowns ++ [.addNode c childpath] }
    | k =>
      match (g c).verifier with
      | some v =>
        if v ∈ acc.found then scan path rest acc
        else
          let acc := { acc with found := v :: acc.found }
          if k = .dir then scan path rest { acc with dirs := acc.dirs ++ [(c, childpath)] }
          else scan path rest { acc with files := acc.files ++ [(c, childpath)] }
      | none =>
        -- literal: never in `found`, processed once per link
        if k = .dir then scan path rest { acc with dirs := acc.dirs ++ [(c, childpath)] }
        else scan path rest { acc with files := acc.files ++ [(c, childpath)] }

structure St (V : Type) where
  found : List V
  stack : List (Nat × Path)                  -- directories discovered and not yet visited, next first
  out : List Event                           -- what the walker has been told so far

/-- `found = set([self.get_verify_cap()])`, then `_deep_traverse_dirnode(self, [])` -/
def init (root : Nat) : St V :=
  ⟨match (g root).verifier with | some v => [v] | none => [], [(root, [])], []⟩

/-- one directory: `_deep_traverse_dirnode` + `_deep_traverse_dirnode_children` -/
def step (s : St V) : Option (St V) :=
  match s.stack with
  | [] => none
  | (n, path) :: rest =>
    let r := scan g path (g n).children ⟨s.found, [], [], []⟩
    some ⟨r.found, r.dirs ++ rest,
      s.out ++ [.addNode n path, .enterDir n] ++ r.unknowns ++ r.files.map (fun f => .addNode f.1 f.2)⟩

/-- run at most `fuel` directory visits; `true` = the walk is complete (`walker.finish()`) -/
def run : Nat → St V → St V × Bool
  | 0, s => (s, s.stack.isEmpty)
  | fuel + 1, s =>
    match step g s with
    | none => (s, true)
    | some s' => run fuel s'

def traverse (root : Nat) (fuel : Nat) : List Event × Bool :=
  let r := run g fuel (init g root)
  (r.1.out, r.2)

/-- one directory visit, or nothing when the walk has finished -/
def stepOrStay (s : St V) : St V :=
  match step g s with
  | some s' => s'
  | none => s

def iter : Nat → St V → St V
  | 0, s => s
  | k + 1, s => iter k (stepOrStay g s)

/-- Several traversals in one process (build_manifest + start_deep_stats, two web requests …): every traversal
    has its own `found`, stack and walker; they share the directory graph, which `node.list()` only reads.  The
    scheduler (the reactor's order of Deferred callbacks) picks which traversal makes its next directory visit. -/
def multiRun : List Nat → (Nat → St V) → (Nat → St V)
  | [], f => f
  | i :: rest, f => multiRun rest (fun j => if j = i then stepOrStay g (f j) else f j)

/-- `DeepStats.add_node` (deep_stats.py) is a fold over the `add_node` calls that bumps one counter per node
    according to its class; a counter is therefore the number of reported nodes of that class. -/
def countNodes (p : NodeInfo V → Bool) (out : List Event) : Nat :=
  out.countP (fun e => match e with
    | .addNode n _ => p (g n)
    | .enterDir _ => false)

/-- the object counters of deep-stats, split by "has a verify cap" (count-directories = verifiedDirs +
    literalDirs, count-files = verifiedFiles + literalFiles, count-literal-files = literalFiles,
    count-unknown = unknown) -/
structure Stats where
  verifiedDirs : Nat
  literalDirs : Nat
  verifiedFiles : Nat
  literalFiles : Nat
  unknown : Nat
  deriving DecidableEq, Repr

def deepStats (out : List Event) : Stats where
  verifiedDirs := countNodes g (fun i => i.kind == .dir && i.verifier.isSome) out
  literalDirs := countNodes g (fun i => i.kind == .dir && i.verifier.isNone) out
  verifiedFiles := countNodes g (fun i => i.kind == .file && i.verifier.isSome) out
  literalFiles := countNodes g (fun i => i.kind == .file && i.verifier.isNone) out
  unknown := countNodes g (fun i => i.kind == .unknown) out

/-- `get_child_at_path`: follow the names from a node -/
def resolve (n : Nat) : Path → Option Nat
  | [] => some n
  | name :: rest =>
    match (g n).children.find? (fun p => p.1 == name) with
    | some (_, c) => resolve c rest
    | none => none

end
end Tahoe.Dir.Traverse
