import Tahoe.Dir.TraverseScan
/-! C21: reachability, the global invariant of the walk and its preservation by every directory visit. -/
namespace Tahoe.Dir.Traverse

section
variable {V : Type} [DecidableEq V] (g : Graph V)

/-- reachable from the root by a path of links through directories -/
inductive Reach (root : Nat) : Nat → Prop where
  | root : Reach root root
  | link {d : Nat} {name : String} {c : Nat} :
      Reach root d → (g d).kind = .dir → (name, c) ∈ (g d).children → Reach root c

/-- two nodes are the same object: the same node, or the same verify cap (an object seen through its write
    cap and through its read cap) -/
def Same (a b : Nat) : Prop := a = b ∨ ∃ v, (g a).verifier = some v ∧ (g b).verifier = some v

/-- one object looks the same through every cap: same kind, same names, children that are the same objects -/
def Consistent : Prop :=
  ∀ a b v, (g a).verifier = some v → (g b).verifier = some v →
    (g a).kind = (g b).kind ∧
    ∀ name c, (name, c) ∈ (g a).children → ∃ c', (name, c') ∈ (g b).children ∧ Same g c c'

theorem same_refl (a : Nat) : Same g a a := Or.inl rfl

theorem same_symm {a b : Nat} (h : Same g a b) : Same g b a := by
  rcases h with h | ⟨v, h1, h2⟩
  · exact Or.inl h.symm
  · exact Or.inr ⟨v, h2, h1⟩

theorem same_trans {a b c : Nat} (h1 : Same g a b) (h2 : Same g b c) : Same g a c := by
  rcases h1 with h1 | ⟨v, ha, hb⟩
  · subst h1; exact h2
  · rcases h2 with h2 | ⟨w, hb', hc⟩
    · subst h2; exact Or.inr ⟨v, ha, hb⟩
    · rw [hb] at hb'; cases hb'
      exact Or.inr ⟨v, ha, hc⟩

/-- the state after visiting the directory `d` at `path` (top of the stack) with scan result `r` -/
def nextState (s : St V) (d : Nat) (path : Path) (rest : List (Nat × Path)) (r : Scan V) : St V :=
  ⟨r.found, r.dirs ++ rest,
    s.out ++ [.addNode d path, .enterDir d] ++ r.unknowns ++ r.files.map (fun f => .addNode f.1 f.2)⟩

theorem step_cases (s s' : St V) (h : step g s = some s') :
    ∃ d path rest, s.stack = (d, path) :: rest ∧
      s' = nextState s d path rest (scan g path (g d).children ⟨s.found, [], [], []⟩) := by
  unfold step at h
  cases hst : s.stack with
  | nil => rw [hst] at h; cases h
  | cons top rest =>
    obtain ⟨d, path⟩ := top
    rw [hst] at h
    simp only [Option.some.injEq] at h
    exact ⟨d, path, rest, rfl, h.symm⟩

theorem mem_out_next (s : St V) (d : Nat) (path : Path) (rest : List (Nat × Path)) (r : Scan V) (m : Nat)
    (p : Path) :
    Event.addNode m p ∈ (nextState s d path rest r).out ↔
      Event.addNode m p ∈ s.out ∨ (m = d ∧ p = path) ∨ Event.addNode m p ∈ r.unknowns ∨ (m, p) ∈ r.files := by
  simp only [nextState, List.mem_append, List.mem_cons, List.mem_map, List.not_mem_nil, or_false,
    Event.addNode.injEq, reduceCtorEq]
  constructor
  · rintro (((h | h) | h) | ⟨f, hf, h⟩)
    · left; exact h
    · right; left; exact h
    · right; right; left; exact h
    · right; right; right
      obtain ⟨h1, h2⟩ := h
      have : f = (m, p) := by cases f; simp_all
      rw [← this]; exact hf
  · rintro (h | h | h | h)
    · left; left; left; exact h
    · left; left; right; exact h
    · left; right; exact h
    · right; exact ⟨(m, p), h, rfl, rfl⟩

/-- where a reported or pending (node, path) comes from: the root, or a link of a reported directory -/
def Prov (root : Nat) (out : List Event) (c : Nat) (q : Path) : Prop :=
  (q = [] ∧ c = root) ∨
  ∃ m p name, q = p ++ [name] ∧ Event.addNode m p ∈ out ∧ (g m).kind = .dir ∧ (name, c) ∈ (g m).children

/-- all paths the walk has reported or has pending -/
def allPaths (s : St V) : List Path := s.out.filterMap evPath ++ s.stack.map (·.2)

/-- the invariant of the walk -/
structure WalkInv (root : Nat) (s : St V) : Prop where
  closure : ∀ m p, Event.addNode m p ∈ s.out → (g m).kind = .dir → ∀ name c, (name, c) ∈ (g m).children →
    Event.addNode c (p ++ [name]) ∈ s.out ∨ (c, p ++ [name]) ∈ s.stack ∨
      ∃ v, (g c).verifier = some v ∧ v ∈ s.found
  foundProv : ∀ v ∈ s.found, (∃ m p, Event.addNode m p ∈ s.out ∧ (g m).verifier = some v) ∨
    ∃ x ∈ s.stack, (g x.1).verifier = some v
  rootSeen : Event.addNode root [] ∈ s.out ∨ (root, []) ∈ s.stack
  stackDirs : ∀ x ∈ s.stack, (g x.1).kind = .dir
  reachStack : ∀ x ∈ s.stack, Reach g root x.1
  reachOut : ∀ m p, Event.addNode m p ∈ s.out → Reach g root m
  provOut : ∀ c q, Event.addNode c q ∈ s.out → Prov g root s.out c q
  provStack : ∀ x ∈ s.stack, Prov g root s.out x.1 x.2
  pathsNodup : (∀ n, ((g n).children.map (·.1)).Nodup) → (allPaths s).Nodup

theorem prov_mono (root : Nat) (out out' : List Event) (hsub : ∀ e ∈ out, e ∈ out') (c : Nat) (q : Path)
    (h : Prov g root out c q) : Prov g root out' c q := by
  rcases h with h | ⟨m, p, name, h1, h2, h3, h4⟩
  · exact Or.inl h
  · exact Or.inr ⟨m, p, name, h1, hsub _ h2, h3, h4⟩

theorem walkInv_init (root : Nat) (hroot : (g root).kind = .dir) : WalkInv g root (init g root) := by
  refine ⟨?_, ?_, ?_, ?_, ?_, ?_, ?_, ?_, ?_⟩
  · intro m p h; simp [init] at h
  · intro v hv
    right
    refine ⟨(root, []), by simp [init], ?_⟩
    simp only [init] at hv
    cases hr : (g root).verifier with
    | none => rw [hr] at hv; cases hv
    | some w => rw [hr] at hv; simp at hv; rw [hv]
  · right; simp [init]
  · intro x hx; simp only [init, List.mem_singleton] at hx; subst hx; exact hroot
  · intro x hx; simp only [init, List.mem_singleton] at hx; subst hx; exact Reach.root
  · intro m p h; simp [init] at h
  · intro c q h; simp [init] at h
  · intro x hx; simp only [init, List.mem_singleton] at hx; subst hx; exact Or.inl ⟨rfl, rfl⟩
  · intro _; simp [allPaths, init]

theorem allPaths_next_perm (s : St V) (d : Nat) (path : Path) (rest : List (Nat × Path)) (r : Scan V)
    (hst : s.stack = (d, path) :: rest) :
    (allPaths (nextState s d path rest r)).Perm (scanPaths r ++ allPaths s) := by
  have hf : List.filterMap evPath (r.files.map (fun f => Event.addNode f.1 f.2)) = r.files.map (·.2) := by
    simp [List.filterMap_map, Function.comp_def, evPath]
  rw [List.perm_iff_count]
  intro a
  simp only [allPaths, nextState, scanPaths, hst, List.filterMap_append, hf, List.filterMap_cons,
    List.filterMap_nil, evPath, List.map_append, List.map_cons, List.count_append, List.count_cons,
    List.count_nil]
  omega

theorem scanPaths_form (path : Path) (kids : List (String × Nat)) (F0 : List V) (r : Scan V)
    (facts : ScanFacts g path kids F0 r) (q : Path) (hq : q ∈ scanPaths r) : ∃ name, q = path ++ [name] := by
  simp only [scanPaths, List.mem_append, List.mem_filterMap, List.mem_map] at hq
  rcases hq with ⟨e, he, hev⟩ | ⟨x, hx, rfl⟩ | ⟨x, hx, rfl⟩
  · obtain ⟨c, name, _, rfl, _⟩ := facts.unkKind e he
    simp only [evPath, Option.some.injEq] at hev
    exact ⟨name, hev.symm⟩
  · obtain ⟨name, _, h⟩ := facts.items x (by simp [hx])
    exact ⟨name, h⟩
  · obtain ⟨name, _, h⟩ := facts.items x (by simp [hx])
    exact ⟨name, h⟩

/-- every directory visit preserves the invariant -/
theorem walkInv_step (root : Nat) (s s' : St V) (h : WalkInv g root s) (hs : step g s = some s') :
    WalkInv g root s' := by
  obtain ⟨d, path, rest, hst, rfl⟩ := step_cases g s s' hs
  have facts := scan_facts g path (g d).children s.found
  generalize scan g path (g d).children ⟨s.found, [], [], []⟩ = r at facts
  have hdStack : (d, path) ∈ s.stack := by rw [hst]; simp
  have hdDir : (g d).kind = .dir := h.stackDirs _ hdStack
  have hdReach : Reach g root d := h.reachStack _ hdStack
  have hsub : ∀ e ∈ s.out, e ∈ (nextState s d path rest r).out := by
    intro e he; simp [nextState, he]
  have hdOut : Event.addNode d path ∈ (nextState s d path rest r).out :=
    (mem_out_next s d path rest r d path).mpr (Or.inr (Or.inl ⟨rfl, rfl⟩))
  have hkid : ∀ name c, (name, c) ∈ (g d).children → Reach g root c :=
    fun name c hc => Reach.link hdReach hdDir hc
  have hprovKid : ∀ name c, (name, c) ∈ (g d).children →
      Prov g root (nextState s d path rest r).out c (path ++ [name]) :=
    fun name c hc => Or.inr ⟨d, path, name, rfl, hdOut, hdDir, hc⟩
  refine ⟨?_, ?_, ?_, ?_, ?_, ?_, ?_, ?_, ?_⟩
  · -- closure
    intro m p hm hk name c hc
    rcases (mem_out_next s d path rest r m p).mp hm with hm | ⟨rfl, rfl⟩ | hm | hm
    · rcases h.closure m p hm hk name c hc with h1 | h1 | ⟨v, hv, hin⟩
      · left; exact hsub _ h1
      · rw [hst] at h1
        simp only [List.mem_cons] at h1
        rcases h1 with h1 | h1
        · left
          cases h1
          exact hdOut
        · right; left; simp [nextState, h1]
      · right; right; exact ⟨v, hv, facts.mono v hin⟩
    · rcases facts.closure name c hc with h1 | h1 | h1 | ⟨v, hv, hin⟩
      · left; exact (mem_out_next s m p rest r _ _).mpr (Or.inr (Or.inr (Or.inl h1)))
      · left; exact (mem_out_next s m p rest r _ _).mpr (Or.inr (Or.inr (Or.inr h1)))
      · right; left; simp [nextState, h1]
      · right; right; exact ⟨v, hv, hin⟩
    · obtain ⟨c', name', _, he, hku⟩ := facts.unkKind _ hm
      cases he
      rw [hku] at hk; cases hk
    · have := facts.fileKind _ hm
      simp only [] at this
      rw [this] at hk; cases hk
  · -- foundProv
    intro v hv
    have hv' : v ∈ r.found := hv
    rcases facts.prov v hv' with h1 | ⟨x, hx, hxv⟩
    · rcases h.foundProv v h1 with ⟨m, p, hm, hmv⟩ | ⟨x, hx, hxv⟩
      · left; exact ⟨m, p, hsub _ hm, hmv⟩
      · rw [hst] at hx
        simp only [List.mem_cons] at hx
        rcases hx with hx | hx
        · subst hx; left; exact ⟨d, path, hdOut, hxv⟩
        · right; exact ⟨x, by simp [nextState, hx], hxv⟩
    · simp only [List.mem_append] at hx
      rcases hx with hx | hx
      · left
        exact ⟨x.1, x.2, (mem_out_next s d path rest r _ _).mpr (Or.inr (Or.inr (Or.inr hx))), hxv⟩
      · right; exact ⟨x, by simp [nextState, hx], hxv⟩
  · -- rootSeen
    rcases h.rootSeen with h1 | h1
    · left; exact hsub _ h1
    · rw [hst] at h1
      simp only [List.mem_cons] at h1
      rcases h1 with h1 | h1
      · left; cases h1; exact hdOut
      · right; simp [nextState, h1]
  · -- stackDirs
    intro x hx
    simp only [nextState, List.mem_append] at hx
    rcases hx with hx | hx
    · exact facts.dirKind x hx
    · exact h.stackDirs x (by rw [hst]; simp [hx])
  · -- reachStack
    intro x hx
    simp only [nextState, List.mem_append] at hx
    rcases hx with hx | hx
    · obtain ⟨name, hm, _⟩ := facts.items x (by simp [hx])
      exact hkid name x.1 hm
    · exact h.reachStack x (by rw [hst]; simp [hx])
  · -- reachOut
    intro m p hm
    rcases (mem_out_next s d path rest r m p).mp hm with hm | ⟨rfl, rfl⟩ | hm | hm
    · exact h.reachOut m p hm
    · exact hdReach
    · obtain ⟨c', name', hc, he, _⟩ := facts.unkKind _ hm
      cases he
      exact hkid name' m hc
    · obtain ⟨name, hc, _⟩ := facts.items (m, p) (by simp [hm])
      exact hkid name m hc
  · -- provOut
    intro c q hm
    rcases (mem_out_next s d path rest r c q).mp hm with hm | ⟨rfl, rfl⟩ | hm | hm
    · exact prov_mono g root _ _ hsub c q (h.provOut c q hm)
    · exact prov_mono g root _ _ hsub c q (h.provStack _ hdStack)
    · obtain ⟨c', name', hc, he, _⟩ := facts.unkKind _ hm
      cases he
      exact hprovKid name' c hc
    · obtain ⟨name, hc, hp⟩ := facts.items (c, q) (by simp [hm])
      simp only [] at hp
      rw [hp]
      exact hprovKid name c hc
  · -- provStack
    intro x hx
    simp only [nextState, List.mem_append] at hx
    rcases hx with hx | hx
    · obtain ⟨name, hc, hp⟩ := facts.items x (by simp [hx])
      rw [hp]
      exact hprovKid name x.1 hc
    · exact prov_mono g root _ _ hsub _ _ (h.provStack x (by rw [hst]; simp [hx]))
  · -- pathsNodup
    intro hnames
    have hold := h.pathsNodup hnames
    rw [(allPaths_next_perm s d path rest r hst).nodup_iff, List.nodup_append]
    refine ⟨facts.pathsNodup (hnames d), hold, ?_⟩
    intro q hq q' hq' e
    subst e
    obtain ⟨name, rfl⟩ := scanPaths_form g path _ _ r facts q hq
    -- the parent path of a known path has been reported; `path` is still pending
    have hprov : Prov g root s.out 0 (path ++ [name]) ∨ True := Or.inr trivial
    clear hprov
    have hparent : path ∈ s.out.filterMap evPath := by
      simp only [allPaths, List.mem_append, List.mem_filterMap, List.mem_map] at hq'
      have key : ∀ c, Prov g root s.out c (path ++ [name]) → path ∈ s.out.filterMap evPath := by
        intro c hp
        rcases hp with ⟨h0, _⟩ | ⟨m, p, name', he, hm, _, _⟩
        · simp at h0
        · have := (List.append_inj' he rfl).1
          subst this
          exact List.mem_filterMap.mpr ⟨_, hm, rfl⟩
      rcases hq' with ⟨ev, hev, hp⟩ | ⟨x, hx, hp⟩
      · cases ev with
        | addNode c q0 =>
          simp only [evPath, Option.some.injEq] at hp
          subst hp
          exact key c (h.provOut c _ hev)
        | enterDir c => simp [evPath] at hp
      · have := h.provStack x hx
        rw [hp] at this
        exact key x.1 this
    have hpend : path ∈ s.stack.map (·.2) := List.mem_map.mpr ⟨(d, path), hdStack, rfl⟩
    unfold allPaths at hold
    rw [List.nodup_append] at hold
    exact hold.2.2 path hparent path hpend rfl

theorem walkInv_run (root : Nat) (hroot : (g root).kind = .dir) (fuel : Nat) :
    WalkInv g root (run g fuel (init g root)).1 :=
  run_inv g (P := WalkInv g root) (fun s s' h hs => walkInv_step g root s s' h hs) fuel _
    (walkInv_init g root hroot)

/-- **every reachable node is visited**, once the stack is empty -/
theorem visits_of_inv (hcons : Consistent g) (root : Nat) (s : St V) (h : WalkInv g root s)
    (hdone : s.stack = []) (n : Nat) (hr : Reach g root n) :
    ∃ m p, Event.addNode m p ∈ s.out ∧ Same g m n := by
  induction hr with
  | root =>
    rcases h.rootSeen with h1 | h1
    · exact ⟨root, [], h1, same_refl g root⟩
    · rw [hdone] at h1; cases h1
  | @link d name c _ hk hc ih =>
    obtain ⟨m, p, hm, hsame⟩ := ih
    -- the reported node `m` is the same object as `d`: a directory with a corresponding link
    have hmk : (g m).kind = .dir ∧ ∃ c', (name, c') ∈ (g m).children ∧ Same g c' c := by
      rcases hsame with rfl | ⟨v, hmv, hdv⟩
      · exact ⟨hk, c, hc, same_refl g c⟩
      · obtain ⟨hkind, hkids⟩ := hcons d m v hdv hmv
        obtain ⟨c', hc', hs⟩ := hkids name c hc
        exact ⟨hkind ▸ hk, c', hc', same_symm g hs⟩
    obtain ⟨hmdir, c', hc', hs'⟩ := hmk
    rcases h.closure m p hm hmdir name c' hc' with h1 | h1 | ⟨v, hv, hin⟩
    · exact ⟨c', _, h1, hs'⟩
    · rw [hdone] at h1; cases h1
    · rcases h.foundProv v hin with ⟨m2, p2, hm2, hv2⟩ | ⟨x, hx, _⟩
      · exact ⟨m2, p2, hm2, same_trans g (Or.inr ⟨v, hv2, hv⟩) hs'⟩
      · rw [hdone] at hx; cases hx

end
end Tahoe.Dir.Traverse
