import Tahoe.Dir.Edit
/-
The abstract specification C20 refers to: a directory is a *map* from normalized names to
(child, metadata) — a total function `Name → Option (Entry C)` — and every edit is a composition of the
two map updates `AMap.set` and `AMap.del`, applied at `norm name`.  `Tahoe.C20.refines_map` shows that
the association-list model of `dirnode.py` (`Tahoe.Dir.Edit`) computes exactly this.
-/
namespace Tahoe.Dir.Edit

abbrev AMap (Name C : Type) := Name → Option (Entry C)
abbrev AState (Name C : Type) := Nat → AMap Name C

section
variable {Name C : Type} [DecidableEq Name]

def AMap.set (m : AMap Name C) (k : Name) (e : Entry C) : AMap Name C :=
  fun k' => if k' = k then some e else m k'

def AMap.del (m : AMap Name C) (k : Name) : AMap Name C :=
  fun k' => if k' = k then none else m k'

def ASetDir (s : AState Name C) (d : Nat) (m : AMap Name C) : AState Name C :=
  fun d' => if d' = d then m else s d'

/-- the map a children list denotes -/
def absC (c : Children Name C) : AMap Name C := fun n => lookup n c

/-- the state of maps a state of children lists denotes -/
def absS (s : State Name C) : AState Name C := fun d => absC (s d)

/-- what is stored for a link: the child (attenuated when the metadata says `no-write`) and the
    metadata with refreshed timestamps -/
def stored (old : Option Meta) (child : Node C) (newmd : Option Meta) (now : Nat) : Entry C :=
  let md := updateMetadata old newmd now
  (if md.noWrite then mkReadonly child else child, md)

variable (norm : Name → Name)

/-- add / replace the link at key `key` -/
def specAddAt (ow : Overwrite) (now : Nat) (m : AMap Name C) (key : Name) (child : Node C)
    (newmd : Option Meta) : Except Err (AMap Name C) :=
  if child.err then .error .capError else
  match m key with
  | some (old, oldmd) =>
    if ow = .no then .error .existingChild
    else if ow = .onlyFiles && old.kind = .dir then .error .existingChild
    else .ok (m.set key (stored (some oldmd) child newmd now))
  | none => .ok (m.set key (stored none child newmd now))

/-- add / replace one link, keyed by the normalized name -/
def specAdd (ow : Overwrite) (now : Nat) (m : AMap Name C) (e : Name × Node C × Option Meta) :
    Except Err (AMap Name C) :=
  specAddAt ow now m (norm e.1) e.2.1 e.2.2

def specAddMany (ow : Overwrite) (now : Nat) (m : AMap Name C) :
    List (Name × Node C × Option Meta) → Except Err (AMap Name C)
  | [] => .ok m
  | e :: rest =>
    match specAdd norm ow now m e with
    | .error x => .error x
    | .ok m' => specAddMany ow now m' rest

def specDelete (namex : Name) (mustExist mustBeDir mustBeFile : Bool) (m : AMap Name C) :
    Except Err (AMap Name C × Option (Node C)) :=
  match m (norm namex) with
  | none => if mustExist then .error .noSuchChild else .ok (m, none)
  | some (old, _) =>
    if mustBeDir && old.kind = .file then .error .wrongType
    else if mustBeFile && old.kind = .dir then .error .wrongType
    else .ok (m.del (norm namex), some old)

/-- the retry loop on name maps -/
def specRetryLoop {R : Type} (modifier : Bool → AMap Name C → Except Err R) (first : Bool)
    (m : AMap Name C) : List (AMap Name C) → Except Err R
  | [] => modifier first m
  | m' :: more =>
    match modifier first m with
    | .error e => .error e
    | .ok _ => specRetryLoop modifier false m' more

def specSetMetadata (namex : Name) (md : Meta) (now : Nat) (m : AMap Name C) : Except Err (AMap Name C) :=
  match m (norm namex) with
  | none => .error .noSuchChild
  | some (child, oldmd) => .ok (m.set (norm namex) (stored (some oldmd) child (some md) now))

/-- rename / relink: `set` in the new parent, then `del` in the old one; nothing on any failure -/
def specMoveCore (now : Nat) (s : AState Name C) (h : Handle) (cur : Name) (h2 : Handle)
    (new : Name) (ow : Overwrite) : AState Name C × Res C :=
  if h2.dir = h.dir ∧ new = cur then (s, .redundant) else
  match s h.dir cur with
  | none => (s, .err .noSuchChild)
  | some (child, md) =>
    match specAddAt ow now (s h2.dir) new child (some md) with
    | .error e => (s, .err e)
    | .ok m2 =>
      let s1 := ASetDir s h2.dir m2
      (ASetDir s1 h.dir ((s1 h.dir).del cur), .node (some child))

def specMove (now : Nat) (s : AState Name C) (h : Handle) (curx : Name) (h2 : Handle)
    (newx : Option Name) (ow : Overwrite) : AState Name C × Res C :=
  if h.readonly || h2.readonly then (s, .err .notWriteable)
  else specMoveCore now s h (norm curx) h2 (newName norm curx newx) ow

def specStep (s : AState Name C) (now : Nat) : Op Name C → AState Name C × Res C
  | .setNode h namex child md ow eager =>
    if eager && child.err then (s, .err .capError)
    else if h.readonly then (s, .err .notWriteable)
    else match specAdd norm ow now (s h.dir) (namex, child, md) with
      | .error e => (s, .err e)
      | .ok m => (ASetDir s h.dir m, .done)
  | .setMany h entries ow eager checksReadonly =>
    if eager && entries.any (fun e => e.2.1.err) then (s, .err .capError)
    else if h.readonly then (s, .err (if checksReadonly then .notWriteable else .assertion))
    else match specAddMany norm ow now (s h.dir) entries with
      | .error e => (s, .err e)
      | .ok m => (ASetDir s h.dir m, .done)
  | .delete h namex mustExist mustBeDir mustBeFile =>
    if h.readonly then (s, .err .notWriteable)
    else match specDelete norm namex mustExist mustBeDir mustBeFile (s h.dir) with
      | .error e => (s, .err e)
      | .ok (m, old) => (ASetDir s h.dir m, .node old)
  | .setMetadata h namex md =>
    if h.readonly then (s, .err .notWriteable)
    else match specSetMetadata norm namex md now (s h.dir) with
      | .error e => (s, .err e)
      | .ok m => (ASetDir s h.dir m, .done)
  | .move h curx h2 newx ow => specMove norm now s h curx h2 newx ow
  | .get h namex =>
    match s h.dir (norm namex) with
    | some (child, _) => (s, .node (some (viewThrough h child)))
    | none => (s, .err .noSuchChild)
  | .hasChild h namex => (s, .bool (s h.dir (norm namex)).isSome)
  | .getMetadata h namex =>
    match s h.dir (norm namex) with
    | some (_, md) => (s, .mdata md)
    | none => (s, .err .keyError)

/-- the fold of abstract map updates over a history -/
def specRun (s : AState Name C) : List (Nat × Op Name C) → AState Name C × List (Res C)
  | [] => (s, [])
  | (now, op) :: rest =>
    let r := specStep norm s now op
    let rr := specRun r.1 rest
    (rr.1, r.2 :: rr.2)

end
end Tahoe.Dir.Edit
