import Tahoe.Dir.Pack
/-
Symbolic (Dolev–Yao) model of what a directory entry reveals (C18).

`dirnode.py`:
  `_pack_normalized_children`: entry = name, ro_uri (clear), rwcapdata, metadata (clear)
  `_encrypt_rw_uri(writekey, rw_uri)`: salt = H_salt(rw_uri); key = H_key(salt, writekey);
        rwcapdata = salt ‖ AES-CTR(key, rw_uri) ‖ HMAC(key, salt ‖ crypttext)
  `_decrypt_rwcapdata`: key = H_key(salt, writekey); AES-CTR⁻¹(key, crypttext)   (the MAC is not checked)
  read cap of a mutable object: contains readkey = H(writekey)  (`hashutil.ssk_readkey_hash`)

Terms are free constructors; `Derivable S t` is what a party knowing the terms `S` can compute: pairing
and projection, hashing (one way), key derivation, encryption, decryption *with the key*, MAC computation.
Nothing else — symbolic secrecy only: guessing a write cap and confirming it through the deterministic salt
is outside this model.
-/
namespace Tahoe.Dir.Authority

inductive Term where
  | pub (n : Nat)                    -- public material: names, metadata, tags, immutable caps
  | secret (n : Nat)                 -- the write key / write cap secret of object `n`
  | hsh (tag : Nat) (t : Term)       -- tagged one-way hash
  | kdf (salt key : Term)            -- mutable_rwcap_key_hash(salt, writekey)
  | enc (key msg : Term)             -- AES-CTR
  | mac (key msg : Term)             -- HMAC
  | pair (a b : Term)
  deriving DecidableEq, Repr

open Term

inductive Derivable (S : Term → Prop) : Term → Prop where
  | known {t} : S t → Derivable S t
  | pub (n) : Derivable S (pub n)
  | pair {a b} : Derivable S a → Derivable S b → Derivable S (pair a b)
  | fst {a b} : Derivable S (pair a b) → Derivable S a
  | snd {a b} : Derivable S (pair a b) → Derivable S b
  | hsh (tag) {t} : Derivable S t → Derivable S (hsh tag t)
  | kdf {s k} : Derivable S s → Derivable S k → Derivable S (kdf s k)
  | enc {k m} : Derivable S k → Derivable S m → Derivable S (enc k m)
  | dec {k m} : Derivable S (enc k m) → Derivable S k → Derivable S m
  | mac {k m} : Derivable S k → Derivable S m → Derivable S (mac k m)

/-- the write cap of object `n` (its secret), its read cap (readkey = H(writekey)) -/
def writeCap (n : Nat) : Term := secret n
def readCap (n : Nat) : Term := hsh 0 (secret n)

/-- `_encrypt_rw_uri(writekey, rw_uri)` -/
def encryptRwUri (writekey rwUri : Term) : Term :=
  let salt := hsh 1 rwUri
  let key := kdf salt writekey
  let crypttext := enc key rwUri
  pair salt (pair crypttext (mac key (pair salt crypttext)))

/-- one packed entry of a directory whose write key is `writekey` -/
def entry (writekey name roUri rwUri metadata : Term) : Term :=
  pair name (pair roUri (pair (encryptRwUri writekey rwUri) metadata))

/-- `_decrypt_rwcapdata` as a computation on terms -/
def decryptRwcapdata (writekey : Term) : Term → Option Term
  | pair salt (pair (enc k m) _) => if k = kdf salt writekey then some m else none
  | _ => none

/-- terms a party may hold without any of the secrets in `Sec` being computable from them:
    a secret itself is not; a ciphertext is if its key is not or its payload is; hashes and MACs always are -/
def Good (Sec : Nat → Prop) : Term → Prop
  | pub _ => True
  | secret n => ¬ Sec n
  | hsh _ _ => True
  | kdf _ k => Good Sec k
  | enc k m => Good Sec k → Good Sec m
  | mac _ _ => True
  | pair a b => Good Sec a ∧ Good Sec b

/-! ### the read-only view of a directory (handles and paths) -/

/-- a directory tree as the traversal sees it: each link says whether the entry stores a write cap -/
structure Link where
  name : String
  target : Nat
  hasRw : Bool          -- the entry's rwcapdata decrypts to a non-empty rw_uri (the child was linked by write cap)

abbrev Tree := Nat → List Link

/-- `_unpack_contents`: `writeable = not self.is_readonly()`; a child is opened writeable only if the parent
    handle is writeable and the entry holds a write cap -/
def childMode (parentWriteable : Bool) (l : Link) : Bool := parentWriteable && l.hasRw

/-- follow a path of names from a handle `(node, writeable)` -/
def walk (t : Tree) : Nat × Bool → List String → Option (Nat × Bool)
  | h, [] => some h
  | (n, w), name :: rest =>
    match (t n).find? (fun l => l.name == name) with
    | some l => walk t (l.target, childMode w l) rest
    | none => none

end Tahoe.Dir.Authority
