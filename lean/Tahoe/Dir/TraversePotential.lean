import Tahoe.Dir.TraverseTerm
/-! C21: the potential that `terminates_on_cycles` asks for, constructed.

    A LIT directory is its own cap string; a LIT directory inside a LIT directory is a substring of it, so the
    cap length `size` strictly decreases along literal-in-literal nesting.  With at most `B` children per
    directory and literal directories of size at most `R`, the potential is

        cost n = p(size n) for a literal directory,   cost n = p(R+1) otherwise,   p(0) = 1, p(r+1) = 1 + B·p(r). -/
namespace Tahoe.Dir.Traverse

section
variable {V : Type} [DecidableEq V] (g : Graph V)

def potBound (B : Nat) : Nat → Nat
  | 0 => 1
  | r + 1 => 1 + B * potBound B r

/-- a directory without verify cap (a LIT directory) -/
def IsLitDir (n : Nat) : Prop := (g n).kind = .dir ∧ (g n).verifier = none

instance (n : Nat) : Decidable (IsLitDir g n) := by unfold IsLitDir; exact inferInstance

def potCost (B R : Nat) (size : Nat → Nat) (n : Nat) : Nat :=
  if IsLitDir g n then potBound B (size n) else potBound B (R + 1)

theorem potBound_le_succ (B r : Nat) : potBound B r ≤ potBound B (r + 1) := by
  induction r with
  | zero => simp [potBound]
  | succ k ih =>
    have := Nat.mul_le_mul_left B ih
    simp only [potBound] at this ⊢
    omega

theorem potBound_mono (B : Nat) {r r' : Nat} (h : r ≤ r') : potBound B r ≤ potBound B r' := by
  induction h with
  | refl => exact Nat.le_refl _
  | step _ ih => exact Nat.le_trans ih (potBound_le_succ B _)

theorem litCost_le (cost : Nat → Nat) (M : Nat) (kids : List (String × Nat))
    (h : ∀ name c, (name, c) ∈ kids → IsLitDir g c → cost c ≤ M) : litCost g cost kids ≤ kids.length * M := by
  induction kids with
  | nil => simp [litCost]
  | cons kc rest ih =>
    obtain ⟨name, c⟩ := kc
    have h1 := ih (fun n' c' hm hl => h n' c' (by simp [hm]) hl)
    have hc := h name c (by simp)
    simp only [litCost, List.map_cons, List.sum_cons, List.length_cons] at h1 ⊢
    rw [Nat.add_mul, Nat.one_mul]
    by_cases hl : (g c).kind = .dir ∧ (g c).verifier = none
    · have := hc hl
      simp only [hl, and_self, if_true]
      omega
    · simp only [hl, if_false]
      omega

/-- the constructed potential meets the two hypotheses of `terminates_on_cycles` -/
theorem potCost_ok (B R : Nat) (size : Nat → Nat)
    (hB : ∀ n, (g n).children.length ≤ B)
    (hR : ∀ n, IsLitDir g n → size n ≤ R)
    (hsize : ∀ n name c, IsLitDir g n → (name, c) ∈ (g n).children → IsLitDir g c → size c < size n) :
    (∀ n, potCost g B R size n ≤ potBound B (R + 1)) ∧
    (∀ n, 1 + litCost g (potCost g B R size) (g n).children ≤ potCost g B R size n) := by
  have hlit : ∀ c, IsLitDir g c → potCost g B R size c = potBound B (size c) := by
    intro c hc; simp [potCost, hc]
  constructor
  · intro n
    unfold potCost
    split
    · rename_i hl
      exact potBound_mono B (Nat.le_trans (hR n hl) (Nat.le_succ R))
    · exact Nat.le_refl _
  · intro n
    by_cases hl : IsLitDir g n
    · rw [hlit n hl]
      cases hs : size n with
      | zero =>
        have := litCost_le g (potCost g B R size) 0 (g n).children (by
          intro name c hm hc
          have := hsize n name c hl hm hc
          omega)
        simp only [Nat.mul_zero] at this
        simp only [potBound]
        omega
      | succ s =>
        have h1 := litCost_le g (potCost g B R size) (potBound B s) (g n).children (by
          intro name c hm hc
          rw [hlit c hc]
          have := hsize n name c hl hm hc
          exact potBound_mono B (by omega))
        have h2 := Nat.mul_le_mul_right (potBound B s) (hB n)
        simp only [potBound]
        omega
    · have hn : potCost g B R size n = potBound B (R + 1) := by simp [potCost, hl]
      rw [hn]
      have h1 := litCost_le g (potCost g B R size) (potBound B R) (g n).children (by
        intro name c hm hc
        rw [hlit c hc]
        exact potBound_mono B (hR c hc))
      have h2 := Nat.mul_le_mul_right (potBound B R) (hB n)
      simp only [potBound]
      omega

end
end Tahoe.Dir.Traverse
