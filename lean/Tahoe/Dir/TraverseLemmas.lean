import Tahoe.Dir.Traverse
/-! Helper lemmas for C21: what one `scan` of a directory adds, and the invariants of the worklist. -/
namespace Tahoe.Dir.Traverse

section
variable {V : Type} [DecidableEq V] (g : Graph V)

/-- verifiers of a list of (node, path) items -/
def vs (l : List (Nat × Path)) : List V := l.filterMap (fun x => (g x.1).verifier)

theorem vs_append (a b : List (Nat × Path)) : vs g (a ++ b) = vs g a ++ vs g b := by
  simp [vs, List.filterMap_append]

theorem nodup_mid {α : Type} (a b : List α) (v : α) (h : (a ++ b).Nodup) (ha : v ∉ a) (hb : v ∉ b) :
    (a ++ [v] ++ b).Nodup := by
  rw [List.nodup_append] at h ⊢
  obtain ⟨h1, h2, h3⟩ := h
  refine ⟨?_, h2, ?_⟩
  · rw [List.nodup_append]
    refine ⟨h1, by simp, ?_⟩
    intro x hx y hy
    simp only [List.mem_singleton] at hy
    subst hy
    intro e; subst e; exact ha hx
  · intro x hx y hy
    simp only [List.mem_append, List.mem_singleton] at hx
    rcases hx with hx | hx
    · exact h3 x hx y hy
    · subst hx; intro e; subst e; exact hb hy

/-- the new items of a scan: fresh, pairwise distinct verifiers, all recorded in `found` -/
structure ScanInv (F0 : List V) (acc : Scan V) : Prop where
  nodup : (vs g acc.files ++ vs g acc.dirs).Nodup
  fresh : ∀ v ∈ vs g acc.files ++ vs g acc.dirs, v ∈ acc.found ∧ v ∉ F0
  mono : ∀ v ∈ F0, v ∈ acc.found

theorem scan_inv (path : Path) (F0 : List V) (kids : List (String × Nat)) (acc : Scan V)
    (h : ScanInv g F0 acc) : ScanInv g F0 (scan g path kids acc) := by
  induction kids generalizing acc with
  | nil => exact h
  | cons kc rest ih =>
    obtain ⟨name, c⟩ := kc
    simp only [scan]
    split
    · exact ih _ ⟨h.nodup, h.fresh, h.mono⟩
    · split
      · rename_i v hv
        split
        · exact ih _ h
        · rename_i hnew
          have hnotN : v ∉ vs g acc.files ++ vs g acc.dirs := fun hm => hnew (h.fresh v hm).1
          have hnotF0 : v ∉ F0 := fun hm => hnew (h.mono v hm)
          have hvc : vs g [(c, path ++ [name])] = [v] := by simp [vs, hv]
          split
          · apply ih
            refine ⟨?_, ?_, ?_⟩
            · simp only [vs_append, hvc]
              rw [← List.append_assoc]
              rw [List.nodup_append]
              refine ⟨h.nodup, by simp, ?_⟩
              intro x hx y hy
              simp only [List.mem_singleton] at hy
              subst hy; intro e; subst e; exact hnotN hx
            · intro x hx
              simp only [vs_append, hvc, List.mem_append, List.mem_singleton] at hx
              rcases hx with hx | hx | hx
              · have := h.fresh x (by simp [hx]); exact ⟨by simp [this.1], this.2⟩
              · have := h.fresh x (by simp [hx]); exact ⟨by simp [this.1], this.2⟩
              · subst hx; exact ⟨by simp, hnotF0⟩
            · intro x hx; simp [h.mono x hx]
          · apply ih
            refine ⟨?_, ?_, ?_⟩
            · simp only [vs_append, hvc]
              have hn := h.nodup
              have ha : v ∉ vs g acc.files := fun hm => hnotN (by simp [hm])
              have hb : v ∉ vs g acc.dirs := fun hm => hnotN (by simp [hm])
              exact nodup_mid _ _ v hn ha hb
            · intro x hx
              simp only [vs_append, hvc, List.mem_append, List.mem_singleton] at hx
              rcases hx with (hx | hx) | hx
              · have := h.fresh x (by simp [hx]); exact ⟨by simp [this.1], this.2⟩
              · subst hx; exact ⟨by simp, hnotF0⟩
              · have := h.fresh x (by simp [hx]); exact ⟨by simp [this.1], this.2⟩
            · intro x hx; simp [h.mono x hx]
      · rename_i hv
        have hvc : vs g [(c, path ++ [name])] = ([] : List V) := by simp [vs, hv]
        split
        · apply ih
          exact ⟨by simpa [vs_append, hvc] using h.nodup, by simpa [vs_append, hvc] using h.fresh, h.mono⟩
        · apply ih
          exact ⟨by simpa [vs_append, hvc] using h.nodup, by simpa [vs_append, hvc] using h.fresh, h.mono⟩

/-- where the items of a scan come from: each is a child link of the scanned directory -/
structure ScanFrom (path : Path) (kids : List (String × Nat)) (acc : Scan V) : Prop where
  items : ∀ x ∈ acc.files ++ acc.dirs, ∃ name, (name, x.1) ∈ kids ∧ x.2 = path ++ [name]
  unk : ∀ e ∈ acc.unknowns, ∃ name c, (name, c) ∈ kids ∧ e = .addNode c (path ++ [name])

theorem scan_from (path : Path) (all kids : List (String × Nat)) (acc : Scan V)
    (hsub : ∀ x ∈ kids, x ∈ all) (h : ScanFrom path all acc) : ScanFrom path all (scan g path kids acc) := by
  induction kids generalizing acc with
  | nil => exact h
  | cons kc rest ih =>
    obtain ⟨name, c⟩ := kc
    have hin : (name, c) ∈ all := hsub _ (by simp)
    have hrest : ∀ x ∈ rest, x ∈ all := fun x hx => hsub x (by simp [hx])
    have addFile : ScanFrom path all { acc with files := acc.files ++ [(c, path ++ [name])] } := by
      refine ⟨?_, h.unk⟩
      intro x hx
      simp only [List.mem_append, List.mem_singleton] at hx
      rcases hx with (hx | hx) | hx
      · exact h.items x (by simp [hx])
      · subst hx; exact ⟨name, hin, rfl⟩
      · exact h.items x (by simp [hx])
    have addDir : ScanFrom path all { acc with dirs := acc.dirs ++ [(c, path ++ [name])] } := by
      refine ⟨?_, h.unk⟩
      intro x hx
      simp only [List.mem_append, List.mem_singleton] at hx
      rcases hx with hx | hx | hx
      · exact h.items x (by simp [hx])
      · exact h.items x (by simp [hx])
      · subst hx; exact ⟨name, hin, rfl⟩
    simp only [scan]
    split
    · apply ih _ hrest
      refine ⟨h.items, ?_⟩
      intro e he
      simp only [List.mem_append, List.mem_singleton] at he
      rcases he with he | he
      · exact h.unk e he
      · exact ⟨name, c, hin, he⟩
    · split
      · split
        · exact ih _ hrest h
        · split
          · exact ih _ hrest ⟨addDir.items, addDir.unk⟩
          · exact ih _ hrest ⟨addFile.items, addFile.unk⟩
      · split
        · exact ih _ hrest addDir
        · exact ih _ hrest addFile

/-! ### resolving paths -/

theorem find_of_mem_nodup (kids : List (String × Nat)) (name : String) (c : Nat)
    (hmem : (name, c) ∈ kids) (hnd : (kids.map (·.1)).Nodup) :
    kids.find? (fun p => p.1 == name) = some (name, c) := by
  induction kids with
  | nil => cases hmem
  | cons k rest ih =>
    obtain ⟨a, b⟩ := k
    simp only [List.map_cons, List.nodup_cons] at hnd
    simp only [List.mem_cons] at hmem
    rcases hmem with hm | hm
    · cases hm; simp [List.find?]
    · have hne : a ≠ name := by
        intro e; subst e
        exact hnd.1 (List.mem_map_of_mem (f := (·.1)) hm)
      simp only [List.find?]
      have : (a == name) = false := by simpa using hne
      simp only [this]
      exact ih hm hnd.2

theorem resolve_append (root : Nat) (p : Path) (n : Nat) (name : String) (c : Nat)
    (h : resolve g root p = some n) (hc : (g n).children.find? (fun q => q.1 == name) = some (name, c)) :
    resolve g root (p ++ [name]) = some c := by
  induction p generalizing root with
  | nil =>
    simp only [resolve, Option.some.injEq] at h
    subst h
    simp [resolve, hc]
  | cons a rest ih =>
    simp only [resolve, List.cons_append] at h ⊢
    cases hf : (g root).children.find? (fun p => p.1 == a) with
    | none => rw [hf] at h; cases h
    | some xc =>
      obtain ⟨x, c'⟩ := xc
      rw [hf] at h
      exact ih c' h

/-! ### invariants of the worklist -/

/-- the verify caps of the nodes the walker was given, in order -/
def reportedV (out : List Event) : List V :=
  out.filterMap (fun e => match e with
    | .addNode n _ => (g n).verifier
    | .enterDir _ => none)

theorem reportedV_append (a b : List Event) : reportedV g (a ++ b) = reportedV g a ++ reportedV g b := by
  simp [reportedV, List.filterMap_append]

/-- invariant of the walk: reported and pending verify caps are pairwise distinct and all in `found` -/
def Inv1 (s : St V) : Prop :=
  (reportedV g s.out ++ vs g s.stack).Nodup ∧ ∀ v ∈ reportedV g s.out ++ vs g s.stack, v ∈ s.found

theorem nodup_insert {α : Type} (A M B : List α) (h : (A ++ B).Nodup) (hM : M.Nodup)
    (hd : ∀ x ∈ M, x ∉ A ∧ x ∉ B) : (A ++ M ++ B).Nodup := by
  rw [List.nodup_append] at h
  obtain ⟨h1, h2, h3⟩ := h
  rw [List.nodup_append]
  refine ⟨?_, h2, ?_⟩
  · rw [List.nodup_append]
    refine ⟨h1, hM, ?_⟩
    intro x hx y hy e; subst e; exact (hd x hy).1 hx
  · intro x hx y hy
    simp only [List.mem_append] at hx
    rcases hx with hx | hx
    · exact h3 x hx y hy
    · intro e; subst e; exact (hd x hx).2 hy

theorem scan_unknowns_kind (path : Path) (kids : List (String × Nat)) (acc : Scan V)
    (h : ∀ e ∈ acc.unknowns, ∃ c p, e = Event.addNode c p ∧ (g c).kind = .unknown) :
    ∀ e ∈ (scan g path kids acc).unknowns, ∃ c p, e = Event.addNode c p ∧ (g c).kind = .unknown := by
  induction kids generalizing acc with
  | nil => exact h
  | cons kc rest ih =>
    obtain ⟨name, c⟩ := kc
    simp only [scan]
    split
    · rename_i hk
      apply ih
      intro e he
      simp only [List.mem_append, List.mem_singleton] at he
      rcases he with he | he
      · exact h e he
      · exact ⟨c, _, he, hk⟩
    · split
      · split
        · exact ih _ h
        · split <;> exact ih _ h
      · split <;> exact ih _ h

theorem step_inv1 (hunk : ∀ n, (g n).kind = .unknown → (g n).verifier = none) (s s' : St V)
    (h : Inv1 g s) (hs : step g s = some s') : Inv1 g s' := by
  unfold step at hs
  cases hst : s.stack with
  | nil => rw [hst] at hs; cases hs
  | cons top rest =>
    obtain ⟨n, path⟩ := top
    rw [hst] at hs
    simp only [Option.some.injEq] at hs
    subst hs
    have hsc := scan_inv g path s.found (g n).children ⟨s.found, [], [], []⟩
      ⟨by simp [vs], by simp [vs], fun v hv => hv⟩
    have hunkE := scan_unknowns_kind g path (g n).children ⟨s.found, [], [], []⟩ (by simp)
    generalize scan g path (g n).children ⟨s.found, [], [], []⟩ = r at hsc hunkE
    obtain ⟨hnd, hsub⟩ := h
    rw [hst] at hnd hsub
    -- reported verifiers of the unknown events: none
    have hu : reportedV g r.unknowns = [] := by
      simp only [reportedV, List.filterMap_eq_nil_iff]
      intro e he
      obtain ⟨c, p, rfl, hk⟩ := hunkE e he
      simp [hunk c hk]
    have hf : reportedV g (r.files.map (fun f => Event.addNode f.1 f.2)) = vs g r.files := by
      simp [reportedV, vs, List.filterMap_map, Function.comp_def]
    have hcons : vs g ((n, path) :: rest) = vs g [(n, path)] ++ vs g rest := by
      rw [← vs_append]; rfl
    have htop : reportedV g [Event.addNode n path, Event.enterDir n] = vs g [(n, path)] := by
      cases hv : (g n).verifier <;> simp [reportedV, vs, hv]
    unfold Inv1
    simp only [reportedV_append, hu, hf, htop, vs_append, List.append_nil]
    rw [hcons] at hnd hsub
    have hre : reportedV g s.out ++ vs g [(n, path)] ++ vs g r.files ++ (vs g r.dirs ++ vs g rest) =
        (reportedV g s.out ++ vs g [(n, path)]) ++ (vs g r.files ++ vs g r.dirs) ++ vs g rest := by
      simp [List.append_assoc]
    rw [hre]
    constructor
    · apply nodup_insert
      · simpa [List.append_assoc] using hnd
      · exact hsc.nodup
      · intro x hx
        have hfr := (hsc.fresh x hx).2
        constructor
        · intro hA; exact hfr (hsub x (by simp only [List.mem_append] at hA ⊢; rcases hA with hA | hA <;> simp [hA]))
        · intro hB; exact hfr (hsub x (by simp [hB]))
    · intro v hv
      simp only [List.mem_append] at hv
      rcases hv with (hv | hv) | hv
      · exact hsc.mono v (hsub v (by simp only [List.mem_append] at hv ⊢; rcases hv with hv | hv <;> simp [hv]))
      · exact (hsc.fresh v (by simpa [List.mem_append] using hv)).1
      · exact hsc.mono v (hsub v (by simp [hv]))

theorem run_inv {P : St V → Prop} (hstep : ∀ s s', P s → step g s = some s' → P s') (fuel : Nat) (s : St V)
    (h : P s) : P (run g fuel s).1 := by
  induction fuel generalizing s with
  | zero => exact h
  | succ f ih =>
    simp only [run]
    cases hs : step g s with
    | none => exact h
    | some s' => exact ih s' (hstep s s' h hs)

end
end Tahoe.Dir.Traverse
