import Tahoe.Dir.TraverseLemmas
/-! C21, termination of the worklist: a measure that strictly decreases with every directory visit.

    `found` only grows and every verify cap lies in a finite universe `U`, so the number of verify caps
    *not yet found* (`unfound`) bounds how many verified objects can still be discovered.  Directories without
    a verify cap (LIT directories) are re-entered for every link; they are charged to a potential `cost` that
    the graph has to admit: `cost n ≥ 1 + Σ cost c` over the literal-directory children `c` of `n`
    (such a potential exists exactly when no literal directory contains itself, which immutability guarantees;
    without literal-directory children `cost = 1` does).  With `cost ≤ C` the measure is

        μ(s) = Σ_{pending directories} cost + C · |verify caps of U not yet found|. -/
namespace Tahoe.Dir.Traverse

section
variable {V : Type} [DecidableEq V] (g : Graph V)

def sumCost (cost : Nat → Nat) (l : List (Nat × Path)) : Nat := (l.map (fun x => cost x.1)).sum

/-- number of verify caps of the universe that are not in `found` -/
def unfound (U F : List V) : Nat := (U.filter (fun v => !(decide (v ∈ F)))).length

/-- what the literal-directory children of a directory cost -/
def litCost (cost : Nat → Nat) (kids : List (String × Nat)) : Nat :=
  (kids.map (fun kc => if (g kc.2).kind = .dir ∧ (g kc.2).verifier = none then cost kc.2 else 0)).sum

/-- the termination measure -/
def measure (cost : Nat → Nat) (C : Nat) (U : List V) (s : St V) : Nat :=
  sumCost cost s.stack + C * unfound U s.found

theorem sumCost_append (cost : Nat → Nat) (a b : List (Nat × Path)) :
    sumCost cost (a ++ b) = sumCost cost a + sumCost cost b := by
  simp [sumCost, List.map_append, List.sum_append]

theorem filter_length_le {α : Type} (p q : α → Bool) (l : List α)
    (h : ∀ x ∈ l, q x = true → p x = true) : (l.filter q).length ≤ (l.filter p).length := by
  induction l with
  | nil => simp
  | cons u rest ih =>
    have ih' := ih (fun x hx => h x (by simp [hx]))
    have hu := h u (by simp)
    simp only [List.filter_cons]
    cases hq : q u <;> cases hp : p u
    · simpa using ih'
    · simp; omega
    · rw [hq] at hu; simp [hp] at hu
    · simpa using ih'

theorem filter_length_lt {α : Type} (p q : α → Bool) (l : List α)
    (h : ∀ x ∈ l, q x = true → p x = true) (v : α) (hv : v ∈ l) (hpv : p v = true) (hqv : q v = false) :
    (l.filter q).length + 1 ≤ (l.filter p).length := by
  induction l with
  | nil => cases hv
  | cons u rest ih =>
    have hle := filter_length_le p q rest (fun x hx => h x (by simp [hx]))
    have hu := h u (by simp)
    simp only [List.filter_cons]
    simp only [List.mem_cons] at hv
    rcases hv with hv | hv
    · subst hv
      simp [hpv, hqv]; omega
    · have ih' := ih (fun x hx => h x (by simp [hx])) hv
      cases hq : q u <;> cases hp : p u
      · simpa using ih'
      · simp; omega
      · rw [hq] at hu; simp [hp] at hu
      · simpa using ih'

theorem unfound_cons_le (U F : List V) (v : V) : unfound U (v :: F) ≤ unfound U F := by
  unfold unfound
  apply filter_length_le
  intro x _ hx
  simp only [List.mem_cons, Bool.not_eq_true', decide_eq_false_iff_not, not_or] at hx ⊢
  exact hx.2

theorem unfound_cons_lt (U F : List V) (v : V) (hU : v ∈ U) (hF : v ∉ F) :
    unfound U (v :: F) + 1 ≤ unfound U F := by
  unfold unfound
  apply filter_length_lt _ _ _ _ v hU
  · simp [hF]
  · simp
  · intro x _ hx
    simp only [List.mem_cons, Bool.not_eq_true', decide_eq_false_iff_not, not_or] at hx ⊢
    exact hx.2

/-- one scan: what it pushes and what it finds, against what the literal-directory children cost -/
theorem scan_cost (cost : Nat → Nat) (C : Nat) (U : List V) (hC : ∀ n, cost n ≤ C)
    (hU : ∀ n v, (g n).verifier = some v → v ∈ U) (path : Path) (kids : List (String × Nat)) (acc : Scan V) :
    sumCost cost (scan g path kids acc).dirs + C * unfound U (scan g path kids acc).found ≤
      sumCost cost acc.dirs + C * unfound U acc.found + litCost g cost kids := by
  induction kids generalizing acc with
  | nil => simp [scan, litCost]
  | cons kc rest ih =>
    obtain ⟨name, c⟩ := kc
    have hlc : litCost g cost ((name, c) :: rest) =
        (if (g c).kind = .dir ∧ (g c).verifier = none then cost c else 0) + litCost g cost rest := by
      simp [litCost]
    rw [hlc]
    simp only [scan]
    split
    · -- unknown child: reported at once, nothing pushed or found
      have := ih { acc with unknowns := acc.unknowns ++ [.addNode c (path ++ [name])] }
      simp only [] at this
      omega
    · split
      · rename_i v hv
        split
        · have := ih acc; omega
        · rename_i hnew
          have hlt := unfound_cons_lt U acc.found v (hU c v hv) hnew
          have hmul := Nat.mul_le_mul_left C hlt
          rw [Nat.mul_add, Nat.mul_one] at hmul
          have hcc := hC c
          split
          · have := ih { found := v :: acc.found, unknowns := acc.unknowns, files := acc.files,
                         dirs := acc.dirs ++ [(c, path ++ [name])] }
            simp only [sumCost_append] at this
            simp only [sumCost, List.map_cons, List.map_nil, List.sum_cons, List.sum_nil] at this ⊢
            omega
          · have := ih { found := v :: acc.found, unknowns := acc.unknowns,
                         files := acc.files ++ [(c, path ++ [name])], dirs := acc.dirs }
            simp only [] at this
            omega
      · rename_i hv
        split
        · rename_i hk
          have := ih { acc with dirs := acc.dirs ++ [(c, path ++ [name])] }
          simp only [sumCost_append] at this
          simp only [sumCost, List.map_cons, List.map_nil, List.sum_cons, List.sum_nil] at this ⊢
          have hif : (if (g c).kind = .dir ∧ (g c).verifier = none then cost c else 0) = cost c := by
            simp [hk, hv]
          rw [hif]
          omega
        · have := ih { acc with files := acc.files ++ [(c, path ++ [name])] }
          simp only [] at this
          omega

/-- every directory visit decreases the measure -/
theorem step_measure (cost : Nat → Nat) (C : Nat) (U : List V) (hC : ∀ n, cost n ≤ C)
    (hU : ∀ n v, (g n).verifier = some v → v ∈ U)
    (hcost : ∀ n, 1 + litCost g cost (g n).children ≤ cost n) (s s' : St V) (hs : step g s = some s') :
    measure cost C U s' + 1 ≤ measure cost C U s := by
  unfold step at hs
  cases hst : s.stack with
  | nil => rw [hst] at hs; cases hs
  | cons top rest =>
    obtain ⟨d, path⟩ := top
    rw [hst] at hs
    simp only [Option.some.injEq] at hs
    subst hs
    have h := scan_cost g cost C U hC hU path (g d).children ⟨s.found, [], [], []⟩
    have hd := hcost d
    simp only [measure, hst, sumCost_append]
    simp only [sumCost, List.map_cons, List.map_nil, List.sum_cons, List.sum_nil] at h ⊢
    omega

theorem stack_empty_of_measure_zero (cost : Nat → Nat) (C : Nat) (U : List V) (hpos : ∀ n, 1 ≤ cost n)
    (s : St V) (h : measure cost C U s = 0) : s.stack = [] := by
  cases hst : s.stack with
  | nil => rfl
  | cons top rest =>
    simp only [measure, hst, sumCost, List.map_cons, List.sum_cons] at h
    have := hpos top.1
    omega

/-- with fuel ≥ measure the walk completes -/
theorem run_completes (cost : Nat → Nat) (C : Nat) (U : List V) (hC : ∀ n, cost n ≤ C)
    (hU : ∀ n v, (g n).verifier = some v → v ∈ U)
    (hcost : ∀ n, 1 + litCost g cost (g n).children ≤ cost n) (fuel : Nat) (s : St V)
    (hf : measure cost C U s ≤ fuel) : (run g fuel s).2 = true ∧ (run g fuel s).1.stack = [] := by
  have hpos : ∀ n, 1 ≤ cost n := fun n => by have := hcost n; omega
  induction fuel generalizing s with
  | zero =>
    have h0 := stack_empty_of_measure_zero cost C U hpos s (by omega)
    simp [run, h0]
  | succ f ih =>
    simp only [run]
    cases hs : step g s with
    | none =>
      refine ⟨rfl, ?_⟩
      unfold step at hs
      cases hst : s.stack with
      | nil => rfl
      | cons top rest => rw [hst] at hs; cases hs
    | some s' =>
      have := step_measure g cost C U hC hU hcost s s' hs
      exact ih s' (by omega)

theorem measure_init_le (cost : Nat → Nat) (C : Nat) (U : List V) (root : Nat) :
    measure cost C U (init g root) ≤ cost root + C * U.length := by
  have h1 : unfound U (init g root).found ≤ U.length := by
    unfold unfound
    exact List.Sublist.length_le List.filter_sublist
  have h2 := Nat.mul_le_mul_left C h1
  simp only [measure, init, sumCost, List.map_cons, List.map_nil, List.sum_cons, List.sum_nil] at h2 ⊢
  omega

end
end Tahoe.Dir.Traverse
