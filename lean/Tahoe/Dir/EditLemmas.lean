import Tahoe.Dir.EditSpec
/-! Helper lemmas for C20 (refinement of the association-list model to the map specification). -/
namespace Tahoe.Dir.Edit

section
variable {κ α : Type} [DecidableEq κ]

theorem lookup_put (k k' : κ) (v : α) (l : List (κ × α)) :
    lookup k' (put k v l) = if k' = k then some v else lookup k' l := by
  induction l with
  | nil =>
    simp only [put, lookup]
    split <;> rename_i h
    · subst h; simp
    · have : ¬ k' = k := fun e => h e.symm
      simp [this]
  | cons p rest ih =>
    obtain ⟨a, b⟩ := p
    simp only [put]
    by_cases hak : a = k
    · subst hak
      simp only [if_true, lookup]
      by_cases h2 : a = k'
      · subst h2; simp
      · have : ¬ k' = a := fun e => h2 e.symm
        simp [h2, this]
    · simp only [hak, if_false, lookup, ih]
      by_cases h2 : a = k'
      · subst h2; simp [hak]
      · simp [h2]

theorem lookup_erase (k k' : κ) (l : List (κ × α)) :
    lookup k' (erase k l) = if k' = k then none else lookup k' l := by
  induction l with
  | nil => simp [erase, lookup]
  | cons p rest ih =>
    obtain ⟨a, b⟩ := p
    unfold erase at ih ⊢
    simp only [List.filter_cons]
    by_cases hak : a = k
    · subst hak
      simp only [decide_true, Bool.not_true, Bool.false_eq_true, if_false, ih, lookup]
      by_cases h2 : k' = a
      · simp [h2]
      · have : ¬ a = k' := fun e => h2 e.symm
        simp [h2, this]
    · simp only [hak, decide_false, Bool.not_false, if_true, lookup, ih]
      by_cases h2 : a = k'
      · subst h2; simp [hak]
      · simp [h2]

end

section
variable {Name C : Type} [DecidableEq Name] (norm : Name → Name)

theorem absC_put (k : Name) (e : Entry C) (c : Children Name C) :
    absC (put k e c) = (absC c).set k e := by
  funext n; simp [absC, AMap.set, lookup_put]

theorem absC_erase (k : Name) (c : Children Name C) :
    absC (erase k c) = (absC c).del k := by
  funext n; simp [absC, AMap.del, lookup_erase]

theorem absS_setDir (s : State Name C) (d : Nat) (c : Children Name C) :
    absS (setDir s d c) = ASetDir (absS s) d (absC c) := by
  funext d'; simp only [absS, setDir, ASetDir]; split <;> rfl

/-- `Adder.modify`, one entry, against the map specification -/
theorem adderEntry_spec (ow : Overwrite) (now : Nat) (c : Children Name C)
    (e : Name × Node C × Option Meta) :
    (adderEntry norm ow now c e).map absC = specAdd norm ow now (absC c) e := by
  simp only [adderEntry, specAdd, specAddAt, stored]
  have hl : absC c (norm e.1) = lookup (norm e.1) c := rfl
  rw [hl]
  by_cases herr : e.2.1.err = true
  · simp [herr, Except.map]
  · simp only [herr, if_false]
    rcases hlk : lookup (norm e.1) c with _ | ⟨old, oldmd⟩
    · simp [Except.map, absC_put]
    · simp only []
      by_cases h1 : ow = Overwrite.no
      · simp [h1, Except.map]
      · simp only [h1, if_false]
        by_cases h2 : (decide (ow = Overwrite.onlyFiles) && decide (old.kind = Kind.dir)) = true
        · simp [h2, Except.map]
        · simp [h2, Except.map, absC_put]

theorem adderModify_spec (ow : Overwrite) (now : Nat) (c : Children Name C)
    (es : List (Name × Node C × Option Meta)) :
    (adderModify norm ow now c es).map absC = specAddMany norm ow now (absC c) es := by
  induction es generalizing c with
  | nil => rfl
  | cons e rest ih =>
    simp only [adderModify, specAddMany]
    have h := adderEntry_spec norm ow now c e
    cases hr : adderEntry norm ow now c e with
    | error x => rw [hr] at h; simp only [Except.map] at h; rw [← h]; rfl
    | ok c' => rw [hr] at h; simp only [Except.map] at h; rw [← h]; exact ih c'

theorem deleterModify_spec (namex : Name) (a b d : Bool) (c : Children Name C) :
    (deleterModify norm namex a b d c).map (fun r => (absC r.1, r.2)) =
      specDelete norm namex a b d (absC c) := by
  simp only [deleterModify, specDelete]
  have hl : absC c (norm namex) = lookup (norm namex) c := rfl
  rw [hl]
  rcases hlk : lookup (norm namex) c with _ | ⟨old, oldmd⟩
  · cases a <;> simp [Except.map]
  · simp only []
    by_cases h1 : (b && decide (old.kind = Kind.file)) = true
    · simp [h1, Except.map]
    · simp only [h1]
      by_cases h2 : (d && decide (old.kind = Kind.dir)) = true
      · simp [h2, Except.map]
      · simp [h2, Except.map, absC_erase]

theorem metadataSetterModify_spec (namex : Name) (md : Meta) (now : Nat) (c : Children Name C) :
    (metadataSetterModify norm namex md now c).map absC = specSetMetadata norm namex md now (absC c) := by
  simp only [metadataSetterModify, specSetMetadata, stored]
  have hl : absC c (norm namex) = lookup (norm namex) c := rfl
  rw [hl]
  rcases hlk : lookup (norm namex) c with _ | ⟨old, oldmd⟩
  · simp [Except.map]
  · simp [Except.map, absC_put]

theorem specAddAt_other {ow : Overwrite} {now : Nat} {m m2 : AMap Name C} {key : Name} {child : Node C}
    {md : Option Meta} (h : specAddAt ow now m key child md = .ok m2) (k : Name) (hk : k ≠ key) :
    m2 k = m k := by
  unfold specAddAt at h
  split at h
  · cases h
  · split at h
    · split at h
      · cases h
      · split at h
        · cases h
        · cases h; simp [AMap.set, hk]
    · cases h; simp [AMap.set, hk]

/-- the single-entry `Adder` that `set_node` builds, against `specAddAt` at an already normalized key -/
theorem adderModify_single_spec (hnorm : ∀ x, norm (norm x) = norm x) (ow : Overwrite) (now : Nat)
    (c : Children Name C) (key : Name) (hkey : norm key = key) (child : Node C) (md : Option Meta) :
    (adderModify norm ow now c [(key, child, md)]).map absC = specAddAt ow now (absC c) key child md := by
  have h := adderModify_spec norm ow now c [(key, child, md)]
  rw [h]
  simp only [specAddMany, specAdd, hkey]
  cases specAddAt ow now (absC c) key child md <;> rfl

theorem moveCore_spec (hnorm : ∀ x, norm (norm x) = norm x) (now : Nat) (s : State Name C)
    (h : Handle) (cur : Name) (hcur : norm cur = cur) (h2 : Handle) (new : Name) (hnew : norm new = new)
    (ow : Overwrite) :
    (absS (moveCore norm now s h cur h2 new ow).1, (moveCore norm now s h cur h2 new ow).2) =
      specMoveCore now (absS s) h cur h2 new ow := by
  unfold moveCore specMoveCore
  by_cases hred : h2.dir = h.dir ∧ new = cur
  · simp [hred]
  · simp only [hred, if_false, hcur]
    have hl : absS s h.dir cur = lookup cur (s h.dir) := rfl
    rw [hl]
    rcases hlk : lookup cur (s h.dir) with _ | ⟨child, md⟩
    · simp
    · simp only []
      have hadd := adderModify_single_spec norm hnorm ow now (s h2.dir) new hnew child (some md)
      have habs : absS s h2.dir = absC (s h2.dir) := rfl
      rw [habs]
      cases hr : adderModify norm ow now (s h2.dir) [(new, child, some md)] with
      | error e =>
        rw [hr] at hadd; simp only [Except.map] at hadd; rw [← hadd]
      | ok c2 =>
        rw [hr] at hadd; simp only [Except.map] at hadd; rw [← hadd]
        simp only []
        -- the link to delete is still there
        have hstill : lookup cur (setDir s h2.dir c2 h.dir) = some (child, md) := by
          by_cases hd : h.dir = h2.dir
          · simp only [setDir, hd, if_true]
            have hne : cur ≠ new := by
              intro e; exact hred ⟨hd.symm, e.symm⟩
            have := specAddAt_other hadd.symm cur hne
            simp only [absC] at this
            rw [this, ← hd]; exact hlk
          · simp only [setDir, hd, if_false]; exact hlk
        simp only [deleterModify, hcur, hstill, Bool.false_and, Bool.false_eq_true, if_false]
        rw [absS_setDir, absS_setDir, absC_erase]
        have : absC (setDir s h2.dir c2 h.dir) = ASetDir (absS s) h2.dir (absC c2) h.dir := by
          rw [← absS_setDir]; rfl
        rw [this]

theorem moveChild_spec (hnorm : ∀ x, norm (norm x) = norm x) (now : Nat) (s : State Name C)
    (h : Handle) (curx : Name) (h2 : Handle) (newx : Option Name) (ow : Overwrite) :
    (absS (moveChild norm now s h curx h2 newx ow).1, (moveChild norm now s h curx h2 newx ow).2) =
      specMove norm now (absS s) h curx h2 newx ow := by
  unfold moveChild specMove
  by_cases hro : (h.readonly || h2.readonly) = true
  · simp [hro]
  · simp only [hro, if_false, Bool.false_eq_true]
    apply moveCore_spec norm hnorm
    · exact hnorm curx
    · cases newx <;> simp [newName, hnorm]

theorem step_spec (hnorm : ∀ x, norm (norm x) = norm x) (s : State Name C) (now : Nat) (op : Op Name C) :
    (absS (step norm s now op).1, (step norm s now op).2) = specStep norm (absS s) now op := by
  cases op with
  | setNode h namex child md ow eager =>
    simp only [step, specStep]
    by_cases h1 : (eager && child.err) = true
    · simp [h1]
    · simp only [h1, if_false, Bool.false_eq_true]
      by_cases h2 : h.readonly = true
      · simp [h2]
      · simp only [h2, if_false, Bool.false_eq_true]
        have hs := adderModify_spec norm ow now (s h.dir) [(namex, child, md)]
        have habs : absS s h.dir = absC (s h.dir) := rfl
        rw [habs]
        simp only [specAddMany] at hs
        cases hr : adderModify norm ow now (s h.dir) [(namex, child, md)] with
        | error e =>
          rw [hr] at hs; simp only [Except.map] at hs
          cases hq : specAdd norm ow now (absC (s h.dir)) (namex, child, md) with
          | error e' => rw [hq] at hs; cases hs; rfl
          | ok m => rw [hq] at hs; cases hs
        | ok c =>
          rw [hr] at hs; simp only [Except.map] at hs
          cases hq : specAdd norm ow now (absC (s h.dir)) (namex, child, md) with
          | error e' => rw [hq] at hs; cases hs
          | ok m => rw [hq] at hs; cases hs; simp [absS_setDir]
  | setMany h entries ow eager cr =>
    simp only [step, specStep]
    by_cases h1 : (eager && entries.any (fun e => e.2.1.err)) = true
    · simp [h1]
    · simp only [h1, if_false, Bool.false_eq_true]
      by_cases h2 : h.readonly = true
      · simp [h2]
      · simp only [h2, if_false, Bool.false_eq_true]
        have hs := adderModify_spec norm ow now (s h.dir) entries
        have habs : absS s h.dir = absC (s h.dir) := rfl
        rw [habs, ← hs]
        cases adderModify norm ow now (s h.dir) entries with
        | error e => rfl
        | ok c => simp [Except.map, absS_setDir]
  | delete h namex a b d =>
    simp only [step, specStep]
    by_cases h2 : h.readonly = true
    · simp [h2]
    · simp only [h2, if_false, Bool.false_eq_true]
      have hs := deleterModify_spec norm namex a b d (s h.dir)
      have habs : absS s h.dir = absC (s h.dir) := rfl
      rw [habs, ← hs]
      cases deleterModify norm namex a b d (s h.dir) with
      | error e => rfl
      | ok c => simp [Except.map, absS_setDir]
  | setMetadata h namex md =>
    simp only [step, specStep]
    by_cases h2 : h.readonly = true
    · simp [h2]
    · simp only [h2, if_false, Bool.false_eq_true]
      have hs := metadataSetterModify_spec norm namex md now (s h.dir)
      have habs : absS s h.dir = absC (s h.dir) := rfl
      rw [habs, ← hs]
      cases metadataSetterModify norm namex md now (s h.dir) with
      | error e => rfl
      | ok c => simp [Except.map, absS_setDir]
  | move h curx h2 newx ow => exact moveChild_spec norm hnorm now s h curx h2 newx ow
  | get h namex =>
    simp only [step, specStep]
    have hl : absS s h.dir (norm namex) = lookup (norm namex) (s h.dir) := rfl
    rw [hl]
    cases lookup (norm namex) (s h.dir) <;> rfl
  | hasChild h namex => rfl
  | getMetadata h namex =>
    simp only [step, specStep]
    have hl : absS s h.dir (norm namex) = lookup (norm namex) (s h.dir) := rfl
    rw [hl]
    cases lookup (norm namex) (s h.dir) <;> rfl

theorem run_spec (hnorm : ∀ x, norm (norm x) = norm x) (s : State Name C) (ops : List (Nat × Op Name C)) :
    (absS (run norm s ops).1, (run norm s ops).2) = specRun norm (absS s) ops := by
  induction ops generalizing s with
  | nil => rfl
  | cons p rest ih =>
    obtain ⟨now, op⟩ := p
    simp only [run, specRun]
    have h1 := step_spec norm hnorm s now op
    have h2 := ih (step norm s now op).1
    rw [← h1]
    simp only []
    rw [← h2]

/-! ### consequences used by the C20 theorems -/

theorem lookup_step (hnorm : ∀ x, norm (norm x) = norm x) (s : State Name C) (now : Nat) (op : Op Name C)
    (d : Nat) (n : Name) :
    lookup n ((step norm s now op).1 d) = (specStep norm (absS s) now op).1 d n := by
  rw [← step_spec norm hnorm s now op]; rfl

theorem res_step (hnorm : ∀ x, norm (norm x) = norm x) (s : State Name C) (now : Nat) (op : Op Name C) :
    (step norm s now op).2 = (specStep norm (absS s) now op).2 := by
  rw [← step_spec norm hnorm s now op]

theorem updateMetadata_motime (old new : Option Meta) (now : Nat) :
    (updateMetadata old new now).sys "linkmotime" = some (Val.time now) := by
  simp [updateMetadata, Meta.sys, lookup_put]

theorem updateMetadata_crtime (old : Meta) (new : Option Meta) (now : Nat) (c : Val)
    (h : old.sys "linkcrtime" = some c) :
    (updateMetadata (some old) new now).sys "linkcrtime" = some c := by
  unfold Meta.sys at h
  cases ht : old.tahoe with
  | none => rw [ht] at h; cases h
  | some t =>
    rw [ht] at h
    have hne : ¬ ("linkcrtime" = "linkmotime") := by decide
    cases new <;> simp [updateMetadata, Meta.sys, lookup_put, ht, h, hne]

theorem updateMetadata_crtime_new (new : Option Meta) (now : Nat) :
    (updateMetadata none new now).sys "linkcrtime" = some (Val.time now) := by
  have hne : ¬ ("linkcrtime" = "linkmotime") := by decide
  cases new <;> simp [updateMetadata, Meta.sys, Meta.empty, lookup_put, lookup, hne]

/-- every entry after an add is an old entry or was written now -/
theorem specAddAt_frame {ow : Overwrite} {now : Nat} {m m2 : AMap Name C} {key : Name} {child : Node C}
    {md : Option Meta} (h : specAddAt ow now m key child md = .ok m2) (k : Name) (e' : Entry C)
    (hk : m2 k = some e') :
    m k = some e' ∨ (k = key ∧ e' = stored ((m key).map (·.2)) child md now) := by
  unfold specAddAt at h
  split at h
  · cases h
  · split at h
    · rename_i old oldmd heq
      split at h
      · cases h
      · split at h
        · cases h
        · cases h
          simp only [AMap.set] at hk
          split at hk
          · right; rename_i hkk; cases hk; simp [hkk, heq]
          · left; exact hk
    · rename_i heq
      cases h
      simp only [AMap.set] at hk
      split at hk
      · right; rename_i hkk; cases hk; simp [hkk, heq]
      · left; exact hk

theorem stored_motime (old : Option Meta) (child : Node C) (md : Option Meta) (now : Nat) :
    (stored old child md now).2.sys "linkmotime" = some (Val.time now) := by
  simp only [stored]; exact updateMetadata_motime old md now

theorem specAddMany_frame {ow : Overwrite} {now : Nat} (es : List (Name × Node C × Option Meta))
    {m m2 : AMap Name C} (h : specAddMany norm ow now m es = .ok m2) (k : Name) (e' : Entry C)
    (hk : m2 k = some e') :
    m k = some e' ∨ e'.2.sys "linkmotime" = some (Val.time now) := by
  induction es generalizing m with
  | nil => simp only [specAddMany] at h; cases h; left; exact hk
  | cons e rest ih =>
    simp only [specAddMany] at h
    cases hq : specAdd norm ow now m e with
    | error x => rw [hq] at h; cases h
    | ok m1 =>
      rw [hq] at h
      rcases ih h with h1 | h1
      · rcases specAddAt_frame hq k e' h1 with h2 | ⟨_, h2⟩
        · left; exact h2
        · right; rw [h2]; exact stored_motime _ _ _ _
      · right; exact h1

/-- frame property of one step: every link afterwards is an old link or carries `linkmotime = now` -/
theorem specStep_frame (s : AState Name C) (now : Nat) (op : Op Name C) (d : Nat) (k : Name) (e' : Entry C)
    (hk : (specStep norm s now op).1 d k = some e') :
    s d k = some e' ∨ e'.2.sys "linkmotime" = some (Val.time now) := by
  cases op with
  | setNode h namex child md ow eager =>
    simp only [specStep] at hk
    split at hk
    · left; exact hk
    · split at hk
      · left; exact hk
      · split at hk
        · left; exact hk
        · rename_i m hq
          simp only [ASetDir] at hk
          split at hk
          · rename_i hd; subst hd
            rcases specAddAt_frame hq k e' hk with h2 | ⟨_, h2⟩
            · left; exact h2
            · right; rw [h2]; exact stored_motime _ _ _ _
          · left; exact hk
  | setMany h entries ow eager cr =>
    simp only [specStep] at hk
    split at hk
    · left; exact hk
    · split at hk
      · left; exact hk
      · split at hk
        · left; exact hk
        · rename_i m hq
          simp only [ASetDir] at hk
          split at hk
          · rename_i hd; subst hd
            exact specAddMany_frame norm entries hq k e' hk
          · left; exact hk
  | delete h namex a b c =>
    simp only [specStep] at hk
    split at hk
    · left; exact hk
    · split at hk
      · left; exact hk
      · rename_i m old hq
        simp only [ASetDir] at hk
        split at hk
        · rename_i hd; subst hd
          left
          unfold specDelete at hq
          split at hq
          · split at hq
            · cases hq
            · cases hq; exact hk
          · split at hq
            · cases hq
            · split at hq
              · cases hq
              · cases hq
                simp only [AMap.del] at hk
                split at hk
                · cases hk
                · exact hk
        · left; exact hk
  | setMetadata h namex md =>
    simp only [specStep] at hk
    split at hk
    · left; exact hk
    · split at hk
      · left; exact hk
      · rename_i m hq
        simp only [ASetDir] at hk
        split at hk
        · rename_i hd; subst hd
          unfold specSetMetadata at hq
          split at hq
          · cases hq
          · cases hq
            simp only [AMap.set] at hk
            split at hk
            · right; cases hk; exact stored_motime _ _ _ _
            · left; exact hk
        · left; exact hk
  | move h curx h2 newx ow =>
    simp only [specStep, specMove] at hk
    split at hk
    · left; exact hk
    · unfold specMoveCore at hk
      split at hk
      · left; exact hk
      · split at hk
        · left; exact hk
        · split at hk
          · left; exact hk
          · rename_i child md hget m2 hq
            simp only [ASetDir] at hk
            have key : ∀ x, (if d = h2.dir then m2 else s d) k = some x →
                s d k = some x ∨ x.2.sys "linkmotime" = some (Val.time now) := by
              intro x hx
              split at hx
              · rename_i hd; subst hd
                rcases specAddAt_frame hq k x hx with h2' | ⟨_, h2'⟩
                · left; exact h2'
                · right; rw [h2']; exact stored_motime _ _ _ _
              · left; exact hx
            split at hk
            · rename_i hd; subst hd
              simp only [AMap.del] at hk
              split at hk
              · cases hk
              · exact key e' hk
            · exact key e' hk
  | get h namex =>
    simp only [specStep] at hk
    split at hk <;> (left; exact hk)
  | hasChild h namex => left; exact hk
  | getMetadata h namex =>
    simp only [specStep] at hk
    split at hk <;> (left; exact hk)

/-- the entries an add with this overwrite mode may not touch -/
def Protected (ow : Overwrite) (e : Entry C) : Prop :=
  match ow with
  | .yes => False
  | .no => True
  | .onlyFiles => e.1.kind = Kind.dir

theorem specAddAt_protected {ow : Overwrite} {now : Nat} {m m2 : AMap Name C} {key : Name} {child : Node C}
    {md : Option Meta} (h : specAddAt ow now m key child md = .ok m2) (k : Name) (e : Entry C)
    (hk : m k = some e) (hp : Protected ow e) : m2 k = some e := by
  by_cases hkk : k = key
  · subst hkk
    unfold specAddAt at h
    split at h
    · cases h
    · rw [hk] at h
      obtain ⟨old, oldmd⟩ := e
      simp only [] at h
      cases ow with
      | yes => exact hp.elim
      | no => simp at h
      | onlyFiles =>
        simp only [Protected] at hp
        simp [hp] at h
  · rw [specAddAt_other h k hkk]; exact hk

theorem specAddMany_protected {ow : Overwrite} {now : Nat} (es : List (Name × Node C × Option Meta))
    {m m2 : AMap Name C} (h : specAddMany norm ow now m es = .ok m2) (k : Name) (e : Entry C)
    (hk : m k = some e) (hp : Protected ow e) : m2 k = some e := by
  induction es generalizing m with
  | nil => simp only [specAddMany] at h; cases h; exact hk
  | cons x rest ih =>
    simp only [specAddMany] at h
    cases hq : specAdd norm ow now m x with
    | error y => rw [hq] at h; cases h
    | ok m1 =>
      rw [hq] at h
      exact ih h (specAddAt_protected hq k e hk hp)

/-- the overwrite mode of an operation that adds links -/
def Op.overwrite : Op Name C → Option Overwrite
  | .setNode _ _ _ _ ow _ => some ow
  | .setMany _ _ ow _ _ => some ow
  | .move _ _ _ _ ow => some ow
  | _ => none

/-- the link a rename removes on success -/
def Op.isSource : Op Name C → Nat → Name → Prop
  | .move h curx _ _ _, d, n => d = h.dir ∧ n = norm curx
  | _, _, _ => False

theorem specStep_protected (s : AState Name C) (now : Nat) (op : Op Name C) (ow : Overwrite)
    (how : op.overwrite = some ow) (d : Nat) (k : Name) (e : Entry C) (hk : s d k = some e)
    (hp : Protected ow e) (hsrc : ¬ op.isSource norm d k) :
    (specStep norm s now op).1 d k = some e := by
  cases op with
  | setNode h namex child md ow' eager =>
    simp only [Op.overwrite, Option.some.injEq] at how; subst how
    simp only [specStep]
    split
    · exact hk
    · split
      · exact hk
      · split
        · exact hk
        · rename_i m hq
          simp only [ASetDir]
          split
          · rename_i hd; subst hd; exact specAddAt_protected hq k e hk hp
          · exact hk
  | setMany h entries ow' eager cr =>
    simp only [Op.overwrite, Option.some.injEq] at how; subst how
    simp only [specStep]
    split
    · exact hk
    · split
      · exact hk
      · split
        · exact hk
        · rename_i m hq
          simp only [ASetDir]
          split
          · rename_i hd; subst hd; exact specAddMany_protected norm entries hq k e hk hp
          · exact hk
  | move h curx h2 newx ow' =>
    simp only [Op.overwrite, Option.some.injEq] at how; subst how
    simp only [Op.isSource] at hsrc
    simp only [specStep, specMove]
    split
    · exact hk
    · unfold specMoveCore
      split
      · exact hk
      · split
        · exact hk
        · split
          · exact hk
          · rename_i child md hget m2 hq
            have key : (if d = h2.dir then m2 else s d) k = some e := by
              split
              · rename_i hd; subst hd; exact specAddAt_protected hq k e hk hp
              · exact hk
            simp only [ASetDir]
            split
            · rename_i hd
              simp only [AMap.del]
              split
              · rename_i hkk; exact (hsrc ⟨hd, hkk⟩).elim
              · subst hd; exact key
            · exact key
  | delete h namex a b c => simp [Op.overwrite] at how
  | setMetadata h namex md => simp [Op.overwrite] at how
  | get h namex => simp [Op.overwrite] at how
  | hasChild h namex => simp [Op.overwrite] at how
  | getMetadata h namex => simp [Op.overwrite] at how

/-- rename at the level of maps: failure and the redundant case change nothing; success relinks -/
theorem specMove_cases (now : Nat) (s : AState Name C) (h : Handle) (curx : Name) (h2 : Handle)
    (newx : Option Name) (ow : Overwrite) :
    let r := specMove norm now s h curx h2 newx ow
    ((∃ e, r.2 = .err e) ∧ r.1 = s) ∨ (r.2 = .redundant ∧ r.1 = s ∧ h2.dir = h.dir ∧ newName norm curx newx = norm curx) ∨
    (∃ child md, s h.dir (norm curx) = some (child, md) ∧ r.2 = .node (some child) ∧
      r.1 h2.dir (newName norm curx newx) =
        some (stored ((s h2.dir (newName norm curx newx)).map (·.2)) child (some md) now) ∧
      (¬ (h2.dir = h.dir ∧ newName norm curx newx = norm curx)) ∧
      r.1 h.dir (norm curx) = none ∧
      ∀ d k, ¬ (d = h.dir ∧ k = norm curx) → ¬ (d = h2.dir ∧ k = newName norm curx newx) → r.1 d k = s d k) := by
  intro r
  show (_ ∨ _ ∨ _)
  simp only [r, specMove]
  split
  · left; exact ⟨⟨_, rfl⟩, rfl⟩
  · unfold specMoveCore
    split
    · rename_i hred; right; left; exact ⟨rfl, rfl, hred.1, hred.2⟩
    · rename_i hred
      split
      · left; exact ⟨⟨_, rfl⟩, rfl⟩
      · rename_i child md hget
        split
        · left; exact ⟨⟨_, rfl⟩, rfl⟩
        · rename_i m2 hq
          right; right
          refine ⟨child, md, hget, rfl, ?_, hred, ?_, ?_⟩
          · -- the new link
            have hm2 : m2 (newName norm curx newx) =
                some (stored ((s h2.dir (newName norm curx newx)).map (·.2)) child (some md) now) := by
              unfold specAddAt at hq
              split at hq
              · cases hq
              · split at hq
                · rename_i old oldmd heq
                  split at hq
                  · cases hq
                  · split at hq
                    · cases hq
                    · cases hq; simp [AMap.set, heq]
                · rename_i heq; cases hq; simp [AMap.set, heq]
            simp only [ASetDir]
            by_cases hd : h2.dir = h.dir
            · have hne : ¬ (newName norm curx newx = norm curx) := fun e => hred ⟨hd, e⟩
              simp [hd, AMap.del, hne, hm2]
            · simp [hd, hm2]
          · simp [ASetDir, AMap.del]
          · intro d k h1 h2'
            simp only [ASetDir]
            by_cases hd : d = h.dir
            · subst hd
              have hk : ¬ k = norm curx := fun e => h1 ⟨rfl, e⟩
              simp only [if_true, AMap.del, hk, if_false]
              by_cases hd2 : h.dir = h2.dir
              · have hk2 : k ≠ newName norm curx newx := fun e => h2' ⟨hd2, e⟩
                simp only [hd2, if_true]
                rw [specAddAt_other hq k hk2, ← hd2]
              · simp [hd2]
            · simp only [hd, if_false]
              by_cases hd2 : d = h2.dir
              · subst hd2
                have hk2 : k ≠ newName norm curx newx := fun e => h2' ⟨rfl, e⟩
                simp only [if_true]
                exact specAddAt_other hq k hk2
              · simp [hd2]

/-! ### the metadata rules of `update_metadata`, key by key -/

theorem updateMetadata_user_some (old : Option Meta) (nm : Meta) (now : Nat) :
    (updateMetadata old (some nm) now).user = nm.user := by
  simp [updateMetadata]

theorem updateMetadata_user_none (old : Option Meta) (now : Nat) :
    (updateMetadata old none now).user = (old.getD Meta.empty).user := by
  simp [updateMetadata]

theorem sys_eq_lookup (m : Meta) (k : String) : m.sys k = lookup k (m.tahoe.getD []) := by
  unfold Meta.sys
  cases m.tahoe <;> simp [lookup]

/-- the 'tahoe' sub-dict after `update_metadata`: that of the *old* metadata (whatever the caller supplied),
    with `linkcrtime` filled in if it was missing and `linkmotime` set to now -/
theorem updateMetadata_tahoe (old new : Option Meta) (now : Nat) :
    ∃ x, (updateMetadata old new now).tahoe =
      some (put "linkmotime" (Val.time now)
        (if (lookup "linkcrtime" ((old.getD Meta.empty).tahoe.getD [])).isSome then (old.getD Meta.empty).tahoe.getD []
         else put "linkcrtime" x ((old.getD Meta.empty).tahoe.getD []))) ∧
      x = ((match lookup "ctime" (old.getD Meta.empty).user with
            | some v => if v = Val.null then none else some v
            | none => none).getD (Val.time now)) := by
  cases new <;> exact ⟨_, rfl, rfl⟩

theorem updateMetadata_sys_other (old new : Option Meta) (now : Nat) (k : String)
    (h1 : k ≠ "linkcrtime") (h2 : k ≠ "linkmotime") :
    (updateMetadata old new now).sys k = (old.getD Meta.empty).sys k := by
  obtain ⟨x, ht, _⟩ := updateMetadata_tahoe old new now
  rw [sys_eq_lookup, sys_eq_lookup, ht]
  simp only [Option.getD_some, lookup_put, h2, if_false]
  split
  · rfl
  · simp [lookup_put, h1]

theorem updateMetadata_crtime_fallback (old : Meta) (new : Option Meta) (now : Nat)
    (hno : old.sys "linkcrtime" = none) :
    (updateMetadata (some old) new now).sys "linkcrtime" =
      some ((match lookup "ctime" old.user with
            | some v => if v = Val.null then none else some v
            | none => none).getD (Val.time now)) := by
  have hne : ¬ ("linkcrtime" = "linkmotime") := by decide
  obtain ⟨x, ht, hx⟩ := updateMetadata_tahoe (some old) new now
  rw [sys_eq_lookup] at hno
  rw [sys_eq_lookup, ht]
  simp only [Option.getD_some] at hno hx ⊢
  simp only [lookup_put, hne, if_false, hno, Option.isSome_none, Bool.false_eq_true, if_true]
  rw [hx]

/-! ### the retry loop -/

theorem retryLoop_spec {R R' : Type} (f : R → R') (modifier : Bool → Children Name C → Except Err R)
    (smod : Bool → AMap Name C → Except Err R')
    (h : ∀ first c, (modifier first c).map f = smod first (absC c)) (first : Bool) (c : Children Name C)
    (reads : List (Children Name C)) :
    (retryLoop modifier first c reads).map f = specRetryLoop smod first (absC c) (reads.map absC) := by
  induction reads generalizing first c with
  | nil => exact h first c
  | cons c' more ih =>
    simp only [retryLoop, specRetryLoop, List.map_cons]
    have h1 := h first c
    cases hm : modifier first c with
    | error e => rw [hm] at h1; simp only [Except.map] at h1; rw [← h1]; rfl
    | ok r => rw [hm] at h1; simp only [Except.map] at h1; rw [← h1]; exact ih false c'

end
end Tahoe.Dir.Edit
