import Tahoe.Dir.Edit
/-
Model of the directory *serialization* of `allmydata/dirnode.py` (C19):

* `netstring` / `split_netstring` (util/netstring.py)            → `netstring`, `readNetstring`, `splitAll`, `split4`
* `strip_prefix_for_ro` (unknown.py)                              → `stripPrefixForRo`
* `uri.from_string` (prefix and constraint logic only)            → `fromString`
* `UnknownNode.__init__` (unknown.py)                             → `mkUnknown`
* `NodeMaker.create_from_cap` (nodemaker.py)                      → `createFromCap`
* `pack_children`, `_pack_normalized_children`                    → `packChildren`, `packEntry`, `pack`
* `DirectoryNode._unpack_contents`                                → `unpackEntry`, `unpack`

Mathlib-free, executable (driver `Drv/C19.lean`).

Abstractions (each is a parameter of `World`; the harness samples the stated hypotheses on the real code):

* names: `Name` with `encodeName` (UTF-8 encode), `decodeName` (UTF-8 decode, may fail) and `norm`
  (`unicodedata.normalize('NFC', ·)`);
* metadata: `J` with `dumps` / `loads` (`json.dumps(·).encode('utf-8')`, `json.loads` + the
  `assert isinstance(metadata, dict)`);
* encryption: `encrypt key rw_uri` is the whole `_encrypt_rw_uri` (salt ‖ AES-CTR ‖ MAC), `decrypt` is
  `_decrypt_rwcapdata`; C18 opens this box;
* caps: `classify` tells, for a cap string without `ro.`/`imm.` prefix, what `uri.from_string` and
  `_create_from_single_cap` make of it: a known cap (mutable object? write cap? its `to_string()` and its
  `get_readonly().to_string()`), one of the two test prefixes, an unknown cap, or a malformed one.
  Verifier caps other than CHK-Verifier end in `UnknownNode` in the code and are not generated.

`sorted(children.keys())` is the order in which the entries are handed to `pack` (Python's builtin sort of
`str` = code-point order; the harness checks that the real packed bytes are in that order).
The `AuxValueDict` cache of the raw entry is modelled (`Child.aux`).
`split_netstring` uses Python's `int()`; here lengths are plain decimal digits (`int` also accepts `+5`,
`_`, surrounding whitespace — C38's subject; never produced by `netstring`).
-/
namespace Tahoe.Dir.Pack
open Tahoe.Dir.Edit (lookup put)

abbrev Bytes := List UInt8

/-! ### netstrings -/

/-- ASCII decimal digits of `n` (`b"%d" % n`) -/
def decDigits (n : Nat) : Bytes :=
  if n < 10 then [UInt8.ofNat (48 + n)] else decDigits (n / 10) ++ [UInt8.ofNat (48 + n % 10)]
termination_by n
decreasing_by omega

/-- `netstring(s) = b"%d:%s," % (len(s), s)` -/
def netstring (s : Bytes) : Bytes := decDigits s.length ++ 58 :: (s ++ [44])

def isDigit (b : UInt8) : Bool := 48 ≤ b.toNat && b.toNat ≤ 57

def decVal (ds : Bytes) : Nat := ds.foldl (fun a d => 10 * a + (d.toNat - 48)) 0

/-- one iteration of the loop of `split_netstring`: `colon = data.index(b":")`, `int(data[:colon])`,
    the string, the `,` -/
def readNetstring (data : Bytes) : Option (Bytes × Bytes) :=
  let ds := data.takeWhile isDigit
  match data.dropWhile isDigit with
  | 58 :: body =>
    if ds.isEmpty then none else
    let n := decVal ds
    if body.length < n + 1 then none
    else if (body.drop n).head? == some 44 then some (body.take n, body.drop (n + 1))
    else none
  | _ => none

/-- the outer loop of `_unpack_contents`: `split_netstring(data, 1, position)` until the data is used up -/
def splitAll : Nat → Bytes → Option (List Bytes)
  | _, [] => some []
  | 0, _ :: _ => none
  | fuel + 1, b :: data =>
    match readNetstring (b :: data) with
    | none => none
    | some (e, rest) => (splitAll fuel rest).map (e :: ·)

/-- `split_netstring(entry, 4)`: exactly four strings from the front; what follows is ignored -/
def split4 (entry : Bytes) : Option (Bytes × Bytes × Bytes × Bytes) :=
  match readNetstring entry with
  | none => none
  | some (a, r1) =>
    match readNetstring r1 with
    | none => none
    | some (b, r2) =>
      match readNetstring r2 with
      | none => none
      | some (c, r3) =>
        match readNetstring r3 with
        | none => none
        | some (d, _) => some (a, b, c, d)

/-! ### caps -/

def roPrefix : Bytes := [114, 111, 46]          -- b"ro."
def immPrefix : Bytes := [105, 109, 109, 46]    -- b"imm."

def startsWith (s p : Bytes) : Bool := p.isPrefixOf s

/-- `s.rstrip(b' ')` -/
def rstrip (s : Bytes) : Bytes := (s.reverse.dropWhile (· == 32)).reverse

/-- `x.rstrip(b' ') or None` -/
def rstripOrNone (s : Bytes) : Option Bytes :=
  match rstrip s with
  | [] => none
  | r => some r

/-- `strip_prefix_for_ro(ro_uri, deep_immutable)` -/
def stripPrefixForRo (ro : Bytes) (deepImmutable : Bool) : Bytes :=
  if startsWith ro immPrefix then
    if !deepImmutable then ro else ro.drop immPrefix.length
  else if startsWith ro roPrefix then ro.drop roPrefix.length
  else ro

inductive CapClass where
  /-- a well-formed cap of a known kind: the object is mutable; the cap is a write cap;
      `cap.to_string()`; `cap.get_readonly().to_string()` -/
  | known (mutableObj writeable : Bool) (canon roForm : Bytes)
  | testWriteable        -- `x-tahoe-future-test-writeable:`
  | testMutable          -- `x-tahoe-future-test-mutable:`
  | unknown              -- no known prefix: `UnknownURI(u)`
  | bad                  -- known prefix, malformed: `BadURIError`
  deriving DecidableEq, Repr

inductive Parsed where
  | known (mutableObj writeable : Bool) (canon roForm : Bytes)
  | unknownOk            -- `UnknownURI(u)` without error
  | unknownErr           -- `UnknownURI(u, error=…)`
  deriving DecidableEq, Repr

/-- `uri.from_string(u, deep_immutable)` -/
def fromString (classify : Bytes → CapClass) (u : Bytes) (deepImmutable : Bool) : Parsed :=
  let can := !deepImmutable
  let (canMutable, canWriteable, s) :=
    if startsWith u immPrefix then (false, false, u.drop immPrefix.length)
    else if startsWith u roPrefix then (can, false, u.drop roPrefix.length)
    else (can, can, u)
  match classify s with
  | .known m w cn rf =>
    if w then (if canWriteable then .known m w cn rf else .unknownErr)
    else if m then (if canMutable then .known m w cn rf else .unknownErr)
    else .known m w cn rf
  | .testWriteable => if !canWriteable then .unknownErr else .unknownOk
  | .testMutable => if !canMutable then .unknownErr else .unknownOk
  | .unknown => .unknownOk
  | .bad => .unknownErr

/-- what packing and the listing look at in a child node -/
structure Node where
  unknown : Bool          -- is_unknown()
  rw : Option Bytes       -- get_write_uri()
  ro : Option Bytes       -- get_readonly_uri()
  mutableObj : Bool       -- known nodes: is_mutable()
  err : Bool              -- raise_error() raises
  deriving DecidableEq, Repr

/-- Python truthiness of `bytes | None` -/
def truthy : Option Bytes → Bool
  | some (_ :: _) => true
  | _ => false

def orNone (o : Option Bytes) : Option Bytes := if truthy o then o else none

def opaqueNode (err : Bool) : Node := ⟨true, none, none, false, err⟩

/-- `UnknownNode.__init__(given_rw_uri, given_ro_uri, deep_immutable)` -/
def mkUnknown (classify : Bytes → CapClass) (givenRw givenRo : Option Bytes) (deepImmutable : Bool) : Node :=
  let givenRw := orNone givenRw
  let givenRo := orNone givenRo
  -- first block: `if given_rw_uri:`; yields the possibly swapped pair or an error
  let step1 : Option (Option Bytes × Option Bytes) :=
    match givenRw with
    | none => some (none, givenRo)
    | some rw =>
      if deepImmutable && !(startsWith rw immPrefix && givenRo.isNone) then none
      else match givenRo with
        | none =>
          if !(startsWith rw roPrefix || startsWith rw immPrefix) then none
          else some (none, some rw)                  -- given_ro_uri = given_rw_uri; given_rw_uri = None
        | some ro => if startsWith ro immPrefix then none else some (some rw, some ro)
  match step1 with
  | none => opaqueNode true
  | some (rw, ro) =>
    -- `read_cap = uri.from_string(given_ro_uri, …)`; an UnknownURI with an error makes the node opaqueNode
    let roErr : Bool := match ro with
      | some r => fromString classify r deepImmutable == .unknownErr
      | none => false
    if roErr then opaqueNode true else
    if deepImmutable then
      -- `assert self.rw_uri is None`; strengthen ro_uri to `imm.`
      let ro' := ro.map (fun r =>
        if startsWith r immPrefix then r
        else if startsWith r roPrefix then immPrefix ++ r.drop roPrefix.length
        else immPrefix ++ r)
      ⟨true, none, ro', false, false⟩
    else
      let ro' := ro.map (fun r =>
        if startsWith r roPrefix || startsWith r immPrefix then r else roPrefix ++ r)
      ⟨true, rw, ro', false, false⟩

/-- `NodeMaker.create_from_cap(writecap, readcap, deep_immutable)` (no blacklist; the node cache only
    shares objects) -/
def createFromCap (classify : Bytes → CapClass) (writecap readcap : Option Bytes) (deepImmutable : Bool) : Node :=
  let bigcap := if truthy writecap then writecap else readcap        -- `writecap or readcap`
  match orNone bigcap with
  | none => opaqueNode false                                            -- `UnknownNode(None, None)`
  | some c =>
    match fromString classify c deepImmutable with
    | .known m w cn rf => ⟨false, if w then some cn else none, some rf, m, false⟩
    | _ => mkUnknown classify writecap readcap deepImmutable

/-- `blacklist.ProhibitedNode`, the wrapper `create_from_cap` puts around a node whose storage index is in the
    client's `access.blacklist`: `get_write_uri()`, `get_readonly_uri()`, `is_unknown()`, `is_mutable()` and
    `is_allowed_in_immutable_directory()` delegate to the wrapped node; `raise_error()` does nothing.
    `prohibitedView` is what packing sees of it. -/
def prohibitedView (wrapped : Node) : Node :=
  ⟨wrapped.unknown, wrapped.rw, wrapped.ro, wrapped.mutableObj, false⟩

/-- `is_allowed_in_immutable_directory()` -/
def Node.allowedInImmutable (n : Node) : Bool :=
  if n.unknown then !n.err && !truthy n.rw else !n.mutableObj

/-! ### pack / unpack -/

structure World (Name J Key : Type) where
  norm : Name → Name
  encodeName : Name → Bytes
  decodeName : Bytes → Option Name
  dumps : J → Bytes
  loads : Bytes → Option J
  encrypt : Key → Bytes → Bytes
  decrypt : Key → Bytes → Bytes
  classify : Bytes → CapClass

structure Child (J : Type) where
  node : Node
  metadata : J
  aux : Option Bytes        -- AuxValueDict: the raw entry this child was unpacked from, until it is set again
  deriving DecidableEq, Repr

inductive PackErr where
  | capError                -- child.raise_error()
  | mustBeDeepImmutable     -- MustBeDeepImmutableError
  deriving DecidableEq, Repr

section
variable {Name J Key : Type} [DecidableEq Name] (W : World Name J Key)

/-- the rwcapdata field: `_encrypt_rw_uri(writekey, rw_uri)`, or empty (`ZERO_LEN_NETSTR`) without a writekey -/
def rwcapField (writekey : Option Key) (rw : Bytes) : Bytes :=
  match writekey with
  | some k => W.encrypt k rw
  | none => []

/-- the four netstrings of one entry: name, ro_uri (prefix stripped), rwcapdata, metadata
    (`get_write_uri()` / `get_readonly_uri()` of `None` become `b""`) -/
def entryBytes (writekey : Option Key) (deepImmutable : Bool) (name : Name) (c : Child J) : Bytes :=
  netstring (W.encodeName name) ++ (netstring (stripPrefixForRo (c.node.ro.getD []) deepImmutable) ++
    (netstring (rwcapField W writekey (c.node.rw.getD [])) ++ netstring (W.dumps c.metadata)))

/-- the cached raw entry, if the dict is an AuxValueDict and the entry is set and non-empty (`if not entry`) -/
def cachedEntry (hasAux : Bool) (c : Child J) : Option Bytes :=
  if hasAux then (match c.aux with | some (b :: r) => some (b :: r) | _ => none) else none

/-- the body of the loop of `_pack_normalized_children` for one name: the netstring-framed entry -/
def packEntry (writekey : Option Key) (deepImmutable : Bool) (hasAux : Bool) (name : Name) (c : Child J) :
    Except PackErr Bytes :=
  -- child.raise_error()
  if c.node.err then .error .capError
  else if deepImmutable && !c.node.allowedInImmutable then .error .mustBeDeepImmutable
  else
    match cachedEntry hasAux c with
    | some entry => .ok (netstring entry)
    | none => .ok (netstring (entryBytes W writekey deepImmutable name c))

/-- `_pack_normalized_children(children, writekey, deep_immutable)` over `sorted(children.keys())` -/
def pack (writekey : Option Key) (deepImmutable : Bool) (hasAux : Bool) :
    List (Name × Child J) → Except PackErr Bytes
  | [] => .ok []
  | (name, c) :: rest =>
    match packEntry W writekey deepImmutable hasAux name c with
    | .error e => .error e
    | .ok b =>
      match pack writekey deepImmutable hasAux rest with
      | .error e => .error e
      | .ok bs => .ok (b ++ bs)

/-- `pack_children`: `children[normalize(namex)] = (node, metadata)` in the order of `childrenx.items()`
    (a plain dict: no aux; a later spelling of the same normalized name replaces the earlier one) -/
def normalizeChildren (l : List (Name × Node × J)) : List (Name × Child J) :=
  l.foldl (fun acc e => put (W.norm e.1) ⟨e.2.1, e.2.2, none⟩ acc) []

/-- the directory whose contents are unpacked -/
structure DirCtx (Key : Type) where
  mutableDir : Bool          -- is_mutable()
  writeable : Bool           -- not is_readonly()
  writekey : Option Key      -- self._node.get_writekey()

/-- `rw_uri = b""; if writeable: rw_uri = self._decrypt_rwcapdata(rwcapdata)` -/
def rwOf (cx : DirCtx Key) (rwcapdata : Bytes) : Bytes :=
  if cx.writeable then
    (match cx.writekey with
     | some k => W.decrypt k rwcapdata
     | none => [])
  else []

/-- the body of the loop of `_unpack_contents`: `none` = an exception; `some none` = the child is
    skipped (CapConstraintError caught, or a mutable child in an immutable directory) -/
def unpackEntry (cx : DirCtx Key) (entry : Bytes) : Option (Option (Name × Child J)) :=
  match split4 entry with
  | none => none
  | some (nameB, roB, rwcapdata, mdB) =>
    if !cx.mutableDir && rwcapdata.length > 0 then none       -- ValueError
    else
      match W.decodeName nameB with
      | none => none                                          -- UnicodeDecodeError
      | some namex =>
        let name := W.norm namex
        let rw : Bytes := rwOf W cx rwcapdata
        let rw' := rstripOrNone rw
        let ro' := rstripOrNone roB
        let child := createFromCap W.classify rw' ro' (!cx.mutableDir)
        if child.err then some none
        else if cx.mutableDir || child.allowedInImmutable then
          match W.loads mdB with
          | none => none
          | some md => some (some (name, ⟨child, md, some entry⟩))
        else some none

def unpackEntries (cx : DirCtx Key) (acc : List (Name × Child J)) : List Bytes → Option (List (Name × Child J))
  | [] => some acc
  | e :: rest =>
    match unpackEntry W cx e with
    | none => none
    | some none => unpackEntries cx acc rest
    | some (some (name, c)) => unpackEntries cx (put name c acc) rest

/-- `DirectoryNode._unpack_contents(data)` -/
def unpack (cx : DirCtx Key) (data : Bytes) : Option (List (Name × Child J)) :=
  match splitAll data.length data with
  | none => none
  | some entries => unpackEntries W cx [] entries

/-- what a round trip through the directory `cx` makes of a child node: the write cap survives only
    through a writeable handle; trailing spaces go; the read cap loses and regains its prefix;
    the node is re-created in the directory's context -/
def canon (cx : DirCtx Key) (n : Node) : Node :=
  createFromCap W.classify (rstripOrNone (if cx.writeable then n.rw.getD [] else []))
    (rstripOrNone (stripPrefixForRo (n.ro.getD []) (!cx.mutableDir))) (!cx.mutableDir)

end

/-! ### `sorted(children.keys())` for the driver (names as UTF-8 bytes: byte order = code-point order) -/

def bytesLt : Bytes → Bytes → Bool
  | [], [] => false
  | [], _ :: _ => true
  | _ :: _, [] => false
  | a :: x, b :: y => if a < b then true else if b < a then false else bytesLt x y

def insertSorted {α : Type} (e : Bytes × α) : List (Bytes × α) → List (Bytes × α)
  | [] => [e]
  | f :: rest => if bytesLt e.1 f.1 then e :: f :: rest else f :: insertSorted e rest

def sortByName {α : Type} (l : List (Bytes × α)) : List (Bytes × α) := l.foldr insertSorted []

end Tahoe.Dir.Pack
