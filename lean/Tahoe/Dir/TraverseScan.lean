import Tahoe.Dir.TraverseLemmas
/-! C21: an induction principle for the `for name, child in sorted(children)` loop (`scan`) and the facts
    about one scan that the invariants of the walk need. -/
namespace Tahoe.Dir.Traverse

section
variable {V : Type} [DecidableEq V] (g : Graph V)

/-- `found.add(verifier)` (a no-op for the test when the verifier is `None`) -/
def addFound (o : Option V) (F : List V) : List V :=
  match o with
  | some v => v :: F
  | none => F

/-- Induction over the loop: four kinds of iteration — an unknown child is reported at once; a child whose
    verify cap is already in `found` is skipped; any other directory is queued, any other file is listed
    (and its verify cap, if it has one, is added to `found`). -/
theorem scan_induct (path : Path) (P : List (String × Nat) → Scan V → Prop)
    (hunk : ∀ name c rest acc, (g c).kind = .unknown → P ((name, c) :: rest) acc →
      P rest ⟨acc.found, acc.unknowns ++ [.addNode c (path ++ [name])], acc.files, acc.dirs⟩)
    (hseen : ∀ name c rest acc v, (g c).kind ≠ .unknown → (g c).verifier = some v → v ∈ acc.found →
      P ((name, c) :: rest) acc → P rest acc)
    (hdir : ∀ name c rest acc, (g c).kind = .dir → (∀ v, (g c).verifier = some v → v ∉ acc.found) →
      P ((name, c) :: rest) acc →
      P rest ⟨addFound (g c).verifier acc.found, acc.unknowns, acc.files, acc.dirs ++ [(c, path ++ [name])]⟩)
    (hfile : ∀ name c rest acc, (g c).kind = .file → (∀ v, (g c).verifier = some v → v ∉ acc.found) →
      P ((name, c) :: rest) acc →
      P rest ⟨addFound (g c).verifier acc.found, acc.unknowns, acc.files ++ [(c, path ++ [name])], acc.dirs⟩)
    (kids : List (String × Nat)) (acc : Scan V) (h : P kids acc) : P [] (scan g path kids acc) := by
  induction kids generalizing acc with
  | nil => exact h
  | cons kc rest ih =>
    obtain ⟨name, c⟩ := kc
    simp only [scan]
    split
    · rename_i hk
      exact ih _ (hunk name c rest acc hk h)
    · rename_i k hnu
      have hne : (g c).kind ≠ .unknown := fun e => hnu e
      split
      · rename_i v hv
        split
        · rename_i hin
          exact ih _ (hseen name c rest acc v hne hv hin h)
        · rename_i hnew
          have hfresh : ∀ v', (g c).verifier = some v' → v' ∉ acc.found := by
            intro v' hv'; rw [hv] at hv'; cases hv'; exact hnew
          split
          · rename_i hk
            have := hdir name c rest acc hk hfresh h
            simp only [hv, addFound] at this
            exact ih _ this
          · rename_i hk
            have hkf : (g c).kind = .file := by
              cases hkk : (g c).kind with
              | dir => exact absurd hkk hk
              | file => rfl
              | unknown => exact absurd hkk hne
            have := hfile name c rest acc hkf hfresh h
            simp only [hv, addFound] at this
            exact ih _ this
      · rename_i hv
        have hfresh : ∀ v', (g c).verifier = some v' → v' ∉ acc.found := by
          intro v' hv'; rw [hv] at hv'; cases hv'
        split
        · rename_i hk
          have := hdir name c rest acc hk hfresh h
          simp only [hv, addFound] at this
          exact ih _ this
        · rename_i hk
          have hkf : (g c).kind = .file := by
            cases hkk : (g c).kind with
            | dir => exact absurd hkk hk
            | file => rfl
            | unknown => exact absurd hkk hne
          have := hfile name c rest acc hkf hfresh h
          simp only [hv, addFound] at this
          exact ih _ this

theorem mem_addFound (o : Option V) (F : List V) (v : V) : v ∈ addFound o F ↔ o = some v ∨ v ∈ F := by
  cases o with
  | none => simp [addFound]
  | some w =>
    simp only [addFound, List.mem_cons, Option.some.injEq]
    constructor
    · rintro (h | h)
      · left; exact h.symm
      · right; exact h
    · rintro (h | h)
      · left; exact h.symm
      · right; exact h

/-- a child link is accounted for by a scan result -/
def Accounted (path : Path) (r : Scan V) (name : String) (c : Nat) : Prop :=
  Event.addNode c (path ++ [name]) ∈ r.unknowns ∨ (c, path ++ [name]) ∈ r.files ∨
    (c, path ++ [name]) ∈ r.dirs ∨ ∃ v, (g c).verifier = some v ∧ v ∈ r.found

/-- the path an event reports, if it reports a node -/
def evPath : Event → Option Path
  | .addNode _ p => some p
  | .enterDir _ => none

/-- all paths a scan result holds -/
def scanPaths (r : Scan V) : List Path :=
  r.unknowns.filterMap evPath ++ (r.files.map (·.2) ++ r.dirs.map (·.2))

/-- everything the invariants of the walk need to know about one scan that started from `found = F0` with
    empty lists -/
structure ScanFacts (path : Path) (kids : List (String × Nat)) (F0 : List V) (r : Scan V) : Prop where
  mono : ∀ v ∈ F0, v ∈ r.found
  closure : ∀ name c, (name, c) ∈ kids → Accounted g path r name c
  prov : ∀ v ∈ r.found, v ∈ F0 ∨ ∃ x ∈ r.files ++ r.dirs, (g x.1).verifier = some v
  fileKind : ∀ x ∈ r.files, (g x.1).kind = .file
  dirKind : ∀ x ∈ r.dirs, (g x.1).kind = .dir
  unkKind : ∀ e ∈ r.unknowns, ∃ c name, (name, c) ∈ kids ∧ e = .addNode c (path ++ [name]) ∧ (g c).kind = .unknown
  items : ∀ x ∈ r.files ++ r.dirs, ∃ name, (name, x.1) ∈ kids ∧ x.2 = path ++ [name]
  pathsNodup : ((kids.map (·.1)).Nodup) → (scanPaths r).Nodup

/-- the loop invariant behind `ScanFacts`, with the children still to be looked at -/
structure ScanInvF (path : Path) (all : List (String × Nat)) (F0 : List V)
    (todo : List (String × Nat)) (r : Scan V) : Prop where
  sub : ∀ x ∈ todo, x ∈ all
  mono : ∀ v ∈ F0, v ∈ r.found
  closure : ∀ name c, (name, c) ∈ all → (name, c) ∈ todo ∨ Accounted g path r name c
  prov : ∀ v ∈ r.found, v ∈ F0 ∨ ∃ x ∈ r.files ++ r.dirs, (g x.1).verifier = some v
  fileKind : ∀ x ∈ r.files, (g x.1).kind = .file
  dirKind : ∀ x ∈ r.dirs, (g x.1).kind = .dir
  unkKind : ∀ e ∈ r.unknowns, ∃ c name, (name, c) ∈ all ∧ e = .addNode c (path ++ [name]) ∧ (g c).kind = .unknown
  items : ∀ x ∈ r.files ++ r.dirs, ∃ name, (name, x.1) ∈ all ∧ x.2 = path ++ [name]
  pathsNodup : ((all.map (·.1)).Nodup) →
    (todo.map (·.1)).Nodup ∧ (scanPaths r).Nodup ∧ ∀ q ∈ scanPaths r, ∀ nm ∈ todo.map (·.1), q ≠ path ++ [nm]

theorem path_snoc_inj (p : Path) (a b : String) (h : p ++ [a] = p ++ [b]) : a = b := by
  have := List.append_inj' h rfl
  simpa using this.2

theorem accounted_mono (path : Path) (r r' : Scan V) (name : String) (c : Nat)
    (hu : ∀ e ∈ r.unknowns, e ∈ r'.unknowns) (hf : ∀ e ∈ r.files, e ∈ r'.files)
    (hd : ∀ e ∈ r.dirs, e ∈ r'.dirs) (hF : ∀ v ∈ r.found, v ∈ r'.found)
    (h : Accounted g path r name c) : Accounted g path r' name c := by
  rcases h with h | h | h | ⟨v, hv, hin⟩
  · left; exact hu _ h
  · right; left; exact hf _ h
  · right; right; left; exact hd _ h
  · right; right; right; exact ⟨v, hv, hF v hin⟩

theorem scanPaths_unk (r : Scan V) (c : Nat) (q : Path) :
    (scanPaths ⟨r.found, r.unknowns ++ [.addNode c q], r.files, r.dirs⟩).Perm (q :: scanPaths r) := by
  simp only [scanPaths, List.filterMap_append, List.filterMap_cons, List.filterMap_nil, evPath]
  have : (List.filterMap evPath r.unknowns ++ [q]) ++ (r.files.map (·.2) ++ r.dirs.map (·.2)) =
      List.filterMap evPath r.unknowns ++ q :: (r.files.map (·.2) ++ r.dirs.map (·.2)) := by simp
  rw [this]
  exact List.perm_middle

theorem scanPaths_file (r : Scan V) (F : List V) (c : Nat) (q : Path) :
    (scanPaths ⟨F, r.unknowns, r.files ++ [(c, q)], r.dirs⟩).Perm (q :: scanPaths r) := by
  simp only [scanPaths, List.map_append, List.map_cons, List.map_nil]
  have : List.filterMap evPath r.unknowns ++ ((r.files.map (·.2) ++ [q]) ++ r.dirs.map (·.2)) =
      (List.filterMap evPath r.unknowns ++ r.files.map (·.2)) ++ q :: r.dirs.map (·.2) := by simp
  rw [this]
  have h2 : List.filterMap evPath r.unknowns ++ (r.files.map (·.2) ++ r.dirs.map (·.2)) =
      (List.filterMap evPath r.unknowns ++ r.files.map (·.2)) ++ r.dirs.map (·.2) := by simp
  rw [h2]
  exact List.perm_middle

theorem scanPaths_dir (r : Scan V) (F : List V) (c : Nat) (q : Path) :
    (scanPaths ⟨F, r.unknowns, r.files, r.dirs ++ [(c, q)]⟩).Perm (q :: scanPaths r) := by
  simp only [scanPaths, List.map_append, List.map_cons, List.map_nil]
  have : List.filterMap evPath r.unknowns ++ (r.files.map (·.2) ++ (r.dirs.map (·.2) ++ [q])) =
      (List.filterMap evPath r.unknowns ++ (r.files.map (·.2) ++ r.dirs.map (·.2))) ++ q :: [] := by simp
  rw [this]
  have h := @List.perm_middle _ q (List.filterMap evPath r.unknowns ++ (r.files.map (·.2) ++ r.dirs.map (·.2))) []
  simpa using h

/-- the path part of the loop invariant, for an iteration that adds the path of the head child -/
theorem paths_step (path : Path) (all rest : List (String × Nat)) (name : String) (c : Nat) (old new : List Path)
    (hperm : new.Perm ((path ++ [name]) :: old))
    (h : ((all.map (·.1)).Nodup) → (((name, c) :: rest).map (·.1)).Nodup ∧ old.Nodup ∧
      ∀ q ∈ old, ∀ nm ∈ ((name, c) :: rest).map (·.1), q ≠ path ++ [nm]) :
    ((all.map (·.1)).Nodup) → (rest.map (·.1)).Nodup ∧ new.Nodup ∧
      ∀ q ∈ new, ∀ nm ∈ rest.map (·.1), q ≠ path ++ [nm] := by
  intro hall
  obtain ⟨h1, h2, h3⟩ := h hall
  simp only [List.map_cons, List.nodup_cons] at h1
  refine ⟨h1.2, ?_, ?_⟩
  · rw [hperm.nodup_iff, List.nodup_cons]
    refine ⟨?_, h2⟩
    intro hm
    exact h3 _ hm name (by simp) rfl
  · intro q hq nm hnm
    rw [hperm.mem_iff] at hq
    simp only [List.mem_cons] at hq
    rcases hq with hq | hq
    · subst hq
      intro e
      have := path_snoc_inj path name nm e
      subst this
      exact h1.1 hnm
    · exact h3 q hq nm (by simp [hnm])

/-- the path part of the loop invariant, for an iteration that adds nothing -/
theorem paths_skip (path : Path) (all rest : List (String × Nat)) (name : String) (c : Nat) (old : List Path)
    (h : ((all.map (·.1)).Nodup) → (((name, c) :: rest).map (·.1)).Nodup ∧ old.Nodup ∧
      ∀ q ∈ old, ∀ nm ∈ ((name, c) :: rest).map (·.1), q ≠ path ++ [nm]) :
    ((all.map (·.1)).Nodup) → (rest.map (·.1)).Nodup ∧ old.Nodup ∧
      ∀ q ∈ old, ∀ nm ∈ rest.map (·.1), q ≠ path ++ [nm] := by
  intro hall
  obtain ⟨h1, h2, h3⟩ := h hall
  simp only [List.map_cons, List.nodup_cons] at h1
  exact ⟨h1.2, h2, fun q hq nm hnm => h3 q hq nm (by simp [hnm])⟩

theorem scan_facts (path : Path) (kids : List (String × Nat)) (F0 : List V) :
    ScanFacts g path kids F0 (scan g path kids ⟨F0, [], [], []⟩) := by
  have h0 : ScanInvF g path kids F0 kids ⟨F0, [], [], []⟩ := by
    refine ⟨fun x hx => hx, fun v hv => hv, fun name c h => Or.inl h, fun v hv => Or.inl hv, ?_, ?_, ?_, ?_, ?_⟩
    · intro x hx; cases hx
    · intro x hx; cases hx
    · intro e he; cases he
    · intro x hx; simp at hx
    · intro hn; exact ⟨hn, by simp [scanPaths], by simp [scanPaths]⟩
  have hfin := scan_induct g path (fun todo r => ScanInvF g path kids F0 todo r) ?_ ?_ ?_ ?_ kids _ h0
  · exact ⟨hfin.mono, fun name c h => (hfin.closure name c h).resolve_left (by simp), hfin.prov, hfin.fileKind,
      hfin.dirKind, hfin.unkKind, hfin.items, fun hn => (hfin.pathsNodup hn).2.1⟩
  · -- an unknown child
    intro name c rest acc hk h
    have hin : (name, c) ∈ kids := h.sub _ (by simp)
    refine ⟨fun x hx => h.sub x (by simp [hx]), h.mono, ?_, h.prov, h.fileKind, h.dirKind, ?_, h.items, ?_⟩
    · intro n' c' hm
      rcases h.closure n' c' hm with h1 | h1
      · simp only [List.mem_cons] at h1
        rcases h1 with h1 | h1
        · cases h1; right; left; simp
        · left; exact h1
      · right
        exact accounted_mono g path acc _ n' c' (fun e he => by simp [he]) (fun e he => he) (fun e he => he)
          (fun v hv => hv) h1
    · intro e he
      simp only [List.mem_append, List.mem_singleton] at he
      rcases he with he | he
      · exact h.unkKind e he
      · exact ⟨c, name, hin, he, hk⟩
    · exact paths_step path kids rest name c _ _ (scanPaths_unk acc c (path ++ [name])) h.pathsNodup
  · -- a child whose verify cap was seen before
    intro name c rest acc v _ hv hin h
    refine ⟨fun x hx => h.sub x (by simp [hx]), h.mono, ?_, h.prov, h.fileKind, h.dirKind, h.unkKind, h.items,
      paths_skip path kids rest name c _ h.pathsNodup⟩
    intro n' c' hm
    rcases h.closure n' c' hm with h1 | h1
    · simp only [List.mem_cons] at h1
      rcases h1 with h1 | h1
      · cases h1; right; right; right; right; exact ⟨v, hv, hin⟩
      · left; exact h1
    · right; exact h1
  · -- a directory to be visited
    intro name c rest acc hk _ h
    have hin : (name, c) ∈ kids := h.sub _ (by simp)
    refine ⟨fun x hx => h.sub x (by simp [hx]), ?_, ?_, ?_, h.fileKind, ?_, h.unkKind, ?_, ?_⟩
    · intro v hv; exact (mem_addFound _ _ v).mpr (Or.inr (h.mono v hv))
    · intro n' c' hm
      rcases h.closure n' c' hm with h1 | h1
      · simp only [List.mem_cons] at h1
        rcases h1 with h1 | h1
        · cases h1; right; right; right; left; simp
        · left; exact h1
      · right
        exact accounted_mono g path acc _ n' c' (fun e he => he) (fun e he => he) (fun e he => by simp [he])
          (fun v hv => (mem_addFound _ _ v).mpr (Or.inr hv)) h1
    · intro v hv
      rcases (mem_addFound _ _ v).mp hv with h1 | h1
      · right; exact ⟨(c, path ++ [name]), by simp, h1⟩
      · rcases h.prov v h1 with h2 | ⟨x, hx, hxv⟩
        · left; exact h2
        · right
          refine ⟨x, ?_, hxv⟩
          simp only [List.mem_append] at hx ⊢
          rcases hx with hx | hx
          · left; exact hx
          · right; left; exact hx
    · intro x hx
      simp only [List.mem_append, List.mem_singleton] at hx
      rcases hx with hx | hx
      · exact h.dirKind x hx
      · subst hx; exact hk
    · intro x hx
      simp only [List.mem_append, List.mem_singleton] at hx
      rcases hx with hx | hx | hx
      · exact h.items x (by simp [hx])
      · exact h.items x (by simp [hx])
      · subst hx; exact ⟨name, hin, rfl⟩
    · exact paths_step path kids rest name c _ _ (scanPaths_dir acc _ c (path ++ [name])) h.pathsNodup
  · -- a file to be reported
    intro name c rest acc hk _ h
    have hin : (name, c) ∈ kids := h.sub _ (by simp)
    refine ⟨fun x hx => h.sub x (by simp [hx]), ?_, ?_, ?_, ?_, h.dirKind, h.unkKind, ?_, ?_⟩
    · intro v hv; exact (mem_addFound _ _ v).mpr (Or.inr (h.mono v hv))
    · intro n' c' hm
      rcases h.closure n' c' hm with h1 | h1
      · simp only [List.mem_cons] at h1
        rcases h1 with h1 | h1
        · cases h1; right; right; left; simp
        · left; exact h1
      · right
        exact accounted_mono g path acc _ n' c' (fun e he => he) (fun e he => by simp [he]) (fun e he => he)
          (fun v hv => (mem_addFound _ _ v).mpr (Or.inr hv)) h1
    · intro v hv
      rcases (mem_addFound _ _ v).mp hv with h1 | h1
      · right; exact ⟨(c, path ++ [name]), by simp, h1⟩
      · rcases h.prov v h1 with h2 | ⟨x, hx, hxv⟩
        · left; exact h2
        · right
          refine ⟨x, ?_, hxv⟩
          simp only [List.mem_append] at hx ⊢
          rcases hx with hx | hx
          · left; left; exact hx
          · right; exact hx
    · intro x hx
      simp only [List.mem_append, List.mem_singleton] at hx
      rcases hx with hx | hx
      · exact h.fileKind x hx
      · subst hx; exact hk
    · intro x hx
      simp only [List.mem_append, List.mem_singleton] at hx
      rcases hx with (hx | hx) | hx
      · exact h.items x (by simp [hx])
      · subst hx; exact ⟨name, hin, rfl⟩
      · exact h.items x (by simp [hx])
    · exact paths_step path kids rest name c _ _ (scanPaths_file acc _ c (path ++ [name])) h.pathsNodup

end
end Tahoe.Dir.Traverse
