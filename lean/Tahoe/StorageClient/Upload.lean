import Tahoe.GridManager.Model
import Tahoe.StorageClient.Model
/-!
The upload path end to end: `StorageFarmBroker._make_storage_server` builds, for every announced
server, a grid-manager verifier from the announcement's certificates
(`create_grid_manager_verifier(keys, certs, "pub-" + server_id)`, C33);
`NativeStorageServer.upload_permitted()` asks it *now*, on every call; and
`get_servers_for_psi(psi, for_upload=True)` filters with that answer (C32).
Here the two models are composed, so that the upload candidates at a time `now` are a pure function
of (announced servers with their certificates, configured keys, preferred list, `now`) — no memory
of earlier calls (seeds C32-a and C33-c added such a memory to the code).  Mathlib-free; run by
`Drv/C33.lean` (`offer`).
-/
namespace Tahoe.StorageClient
open Tahoe.GridManager

/-- a server as announced: `id` is both the broker's server id and (with the `pub-` prefix) the
    public-key string certificates must name -/
structure Announced (Sig Msg : Type) where
  id : Nat
  connected : Bool
  certs : List (SignedCert Sig Msg)
  hash : Nat
  deriving Repr

variable {PK Sig Msg : Type}

/-- `upload_permitted()` at `now`.  An exception while creating or asking the verifier propagates in
    the code (correctly signed malformed certificate, outside C33's assumption); it is certainly not
    a `True`, and is `false` here. -/
def verdict (verify : PK → Sig → Msg → Bool) (parse : Msg → Parsed Nat) (keys : List PK)
    (now : Time) (a : Announced Sig Msg) : Bool :=
  match verifier verify parse keys a.certs a.id with
  | .ok f =>
    match f now with
    | .ok true => true
    | _ => false
  | .error _ => false

def toServer (verify : PK → Sig → Msg → Bool) (parse : Msg → Parsed Nat) (keys : List PK)
    (now : Time) (a : Announced Sig Msg) : Server :=
  ⟨a.id, a.connected, verdict verify parse keys now a, a.hash⟩

/-- `get_servers_for_psi(psi, for_upload)` at time `now` on the announced servers -/
def serversAt (verify : PK → Sig → Msg → Bool) (parse : Msg → Parsed Nat) (keys : List PK)
    (preferred : List Nat) (forUpload : Bool) (now : Time) (l : List (Announced Sig Msg)) : List Server :=
  getServersForPsi preferred forUpload (l.map (toServer verify parse keys now))

/-! ### Undecodable certificate entries

An announcement lists its certificates as JSON objects `{"certificate": text, "signature": base32}`;
`_make_storage_server` turns each into a `SignedCertificate` (`SignedCertificate.load`).  An entry
that cannot be decoded (missing field, non-string field, signature text that is not base32, entry
that is not an object) makes `load` raise, the exception leaves `_make_storage_server` and
`_got_announcement`, and **no server object is created from that announcement** (a previously
announced object, if any, stays as it was).  So an undecodable entry grants nothing, and it never
turns the configured-keys case into the no-keys case (seed C33-d made the verifier `None`, which
`upload_permitted()` reads as "no keys configured"). -/
structure Announcement (Sig Msg : Type) where
  id : Nat
  connected : Bool
  entries : List (Option (SignedCert Sig Msg))      -- `none` = `SignedCertificate.load` raises
  hash : Nat
  deriving Repr

/-- `_make_storage_server`: the server object, unless decoding an entry raises -/
def accept (a : Announcement Sig Msg) : Option (Announced Sig Msg) :=
  if a.entries.all Option.isSome then some ⟨a.id, a.connected, a.entries.filterMap id, a.hash⟩ else none

/-- `get_servers_for_psi` at `now` on the servers that exist after these (first) announcements -/
def serversAtA (verify : PK → Sig → Msg → Bool) (parse : Msg → Parsed Nat) (keys : List PK)
    (preferred : List Nat) (forUpload : Bool) (now : Time) (l : List (Announcement Sig Msg)) : List Server :=
  serversAt verify parse keys preferred forUpload now (l.filterMap accept)

/-! ### Announcement histories

`StorageFarmBroker.servers` maps a server id to the server object built from the **latest**
announcement of that id: `_got_announcement` builds the new object (refusing the announcement if an
entry is undecodable), pops the old one and stores the new one.  (An announcement equal to the
stored one is ignored by `_should_ignore_announcement`; replacing an announcement by itself gives
the same state up to dict order, which only matters for equal sort keys.  Seed C32-e ignored every
re-announcement that kept FURL / NURLs / seed, so changed certificate lists never arrived.) -/
def announce (st : List (Announced Sig Msg)) (a : Announcement Sig Msg) : List (Announced Sig Msg) :=
  match accept a with
  | none => st
  | some s => st.filter (fun x => x.id != s.id) ++ [s]

/-- `self.servers.values()` after a history of announcements, starting from an empty broker -/
def brokerAfter (hist : List (Announcement Sig Msg)) : List (Announced Sig Msg) :=
  hist.foldl announce []

/-- the latest accepted announcement of server id `i` in a history -/
def latest (i : Nat) (hist : List (Announcement Sig Msg)) : Option (Announced Sig Msg) :=
  hist.foldl (fun acc a =>
    match accept a with
    | some s => if s.id = i then some s else acc
    | none => acc) none

/-- `get_servers_for_psi` at `now` after a history of announcements -/
def serversAfter (verify : PK → Sig → Msg → Bool) (parse : Msg → Parsed Nat) (keys : List PK)
    (preferred : List Nat) (forUpload : Bool) (now : Time) (hist : List (Announcement Sig Msg)) : List Server :=
  serversAt verify parse keys preferred forUpload now (brokerAfter hist)

end Tahoe.StorageClient
