import Tahoe.Base.Sha256
import Tahoe.StorageClient.Model
/-!
`util/hashutil.py` `permute_server_hash(peer_selection_index, server_permutation_seed)
  = hashlib.sha1(peer_selection_index + server_permutation_seed).digest()`
and `get_servers_for_psi` on servers given by their permutation *seeds*: the sort key of the model
(`Server.hash`) is now computed — SHA-1 from `Tahoe/Base/Sha256.lean` (executable, checked against
hashlib by `harness/props/c32.py` through the driver op `psib`, and against the FIPS vectors by the
`#guard`s there).  Python orders the 20-byte digests lexicographically; equal-length byte strings
compare like the big-endian numbers `beNat` (not proved here).  Mathlib-free.
-/
namespace Tahoe.StorageClient
open Tahoe.Base.Sha256

/-- a server as the selection code sees it before hashing: `get_permutation_seed()` instead of the digest -/
structure RawServer where
  id : Nat
  connected : Bool
  permitted : Bool
  seed : List UInt8
  deriving DecidableEq, Repr

def beNat (l : List UInt8) : Nat := l.foldl (fun acc b => acc * 256 + b.toNat) 0

def permuteServerHash (psi seed : List UInt8) : List UInt8 := sha1 (psi ++ seed)

def cook (psi : List UInt8) (r : RawServer) : Server :=
  ⟨r.id, r.connected, r.permitted, beNat (permuteServerHash psi r.seed)⟩

/-- `get_servers_for_psi(peer_selection_index, for_upload)` from storage index and seeds -/
def getServersForPsiBytes (preferred : List Nat) (forUpload : Bool) (psi : List UInt8)
    (l : List RawServer) : List Server :=
  getServersForPsi preferred forUpload (l.map (cook psi))

end Tahoe.StorageClient
