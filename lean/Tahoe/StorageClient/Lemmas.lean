import Tahoe.StorageClient.Model
import Tahoe.StorageClient.Upload
/-! Helper lemmas for C32 (kept apart from the property theorems). -/
namespace Tahoe.StorageClient

theorem perm_ins {α : Type} (le : α → α → Bool) (a : α) (l : List α) : (ins le a l).Perm (a :: l) := by
  induction l with
  | nil => simp [ins]
  | cons b r ih =>
    unfold ins
    split
    · exact List.Perm.refl _
    · exact (List.Perm.cons b ih).trans (List.Perm.swap a b r)

theorem perm_isort {α : Type} (le : α → α → Bool) (l : List α) : (isort le l).Perm l := by
  induction l with
  | nil => simp [isort]
  | cons a l ih => exact (perm_ins le a _).trans (List.Perm.cons a ih)

theorem sorted_ins {α : Type} (le : α → α → Bool)
    (trans : ∀ a b c, le a b = true → le b c = true → le a c = true)
    (total : ∀ a b, (le a b || le b a) = true) (a : α) (l : List α)
    (h : l.Pairwise (fun x y => le x y = true)) : (ins le a l).Pairwise (fun x y => le x y = true) := by
  induction l with
  | nil => simp [ins]
  | cons b r ih =>
    unfold ins
    have hb := List.pairwise_cons.mp h
    split
    · rename_i hab
      refine List.pairwise_cons.mpr ⟨?_, h⟩
      intro c hc
      rcases List.mem_cons.mp hc with rfl | hc
      · exact hab
      · exact trans _ _ _ hab (hb.1 c hc)
    · rename_i hab
      have hba : le b a = true := by
        have := total a b
        simp only [Bool.or_eq_true] at this
        rcases this with h1 | h1
        · exact absurd h1 hab
        · exact h1
      refine List.pairwise_cons.mpr ⟨?_, ih hb.2⟩
      intro c hc
      rcases List.mem_cons.mp ((perm_ins le a r).subset hc) with rfl | hc
      · exact hba
      · exact hb.1 c hc

theorem sorted_isort {α : Type} (le : α → α → Bool)
    (trans : ∀ a b c, le a b = true → le b c = true → le a c = true)
    (total : ∀ a b, (le a b || le b a) = true) (l : List α) :
    (isort le l).Pairwise (fun x y => le x y = true) := by
  induction l with
  | nil => simp [isort]
  | cons a l ih => exact sorted_ins le trans total a _ ih

theorem keyLe_trans (a b c : Bool × Nat) (h1 : keyLe a b = true) (h2 : keyLe b c = true) :
    keyLe a c = true := by
  obtain ⟨a1, a2⟩ := a; obtain ⟨b1, b2⟩ := b; obtain ⟨c1, c2⟩ := c
  cases a1 <;> cases b1 <;> cases c1 <;> simp_all [keyLe] <;> omega

theorem keyLe_total (a b : Bool × Nat) : (keyLe a b || keyLe b a) = true := by
  obtain ⟨a1, a2⟩ := a; obtain ⟨b1, b2⟩ := b
  cases a1 <;> cases b1 <;> simp [keyLe] <;> omega

theorem keyLe_antisymm (a b : Bool × Nat) (h1 : keyLe a b = true) (h2 : keyLe b a = true) : a = b := by
  obtain ⟨a1, a2⟩ := a; obtain ⟨b1, b2⟩ := b
  cases a1 <;> cases b1 <;> simp_all [keyLe] <;> omega

theorem sorted_getServersForPsi (preferred : List Nat) (fu : Bool) (l : List Server) :
    (getServersForPsi preferred fu l).Pairwise (fun a b => serverLe preferred a b = true) := by
  unfold getServersForPsi
  exact sorted_isort (serverLe preferred)
    (fun a b c h1 h2 => keyLe_trans (sortKey preferred a) (sortKey preferred b) (sortKey preferred c) h1 h2)
    (fun a b => keyLe_total (sortKey preferred a) (sortKey preferred b)) _

theorem perm_getServersForPsi (preferred : List Nat) (fu : Bool) (l : List Server) :
    (getServersForPsi preferred fu l).Perm
      (l.filter (fun s => s.connected && (!fu || s.permitted))) := by
  unfold getServersForPsi
  refine (perm_isort _ _).trans ?_
  cases fu <;> simp [List.filter_filter, Bool.and_comm]

theorem entryLe_trans (a b c : Entry) (h1 : entryLe a b = true) (h2 : entryLe b c = true) :
    entryLe a c = true := by
  simp [entryLe] at *
  omega

theorem entryLe_total (a b : Entry) : (entryLe a b || entryLe b a) = true := by
  simp [entryLe]
  omega

theorem mem_candidates (goal : List (Nat × Nat)) (bad : List Nat) (i : Nat) (l : List Server)
    (e : Entry) (h : e ∈ candidates goal bad i l) :
    ∃ s ∈ l, s.id = e.id ∧ s.permitted = true ∧ bad.contains s.id = false := by
  induction l generalizing i with
  | nil => simp [candidates] at h
  | cons s rest ih =>
    unfold candidates at h
    split at h
    · obtain ⟨s', hs', hr⟩ := ih _ h
      exact ⟨s', List.mem_cons_of_mem _ hs', hr⟩
    · split at h
      · obtain ⟨s', hs', hr⟩ := ih _ h
        exact ⟨s', List.mem_cons_of_mem _ hs', hr⟩
      · rename_i hb hp
        rcases List.mem_cons.mp h with h | h
        · subst h
          exact ⟨s, List.mem_cons_self, rfl, by simpa using hp, by simpa using hb⟩
        · obtain ⟨s', hs', hr⟩ := ih _ h
          exact ⟨s', List.mem_cons_of_mem _ hs', hr⟩

theorem pick_some (sl : List Entry) (j : Nat) (h : sl ≠ []) : ∃ e ∈ sl, pick sl j = some e.id := by
  have hlen : 0 < sl.length := List.length_pos_iff.mpr h
  have hlt : j % sl.length < sl.length := Nat.mod_lt _ hlen
  refine ⟨sl[j % sl.length], List.getElem_mem _, ?_⟩
  simp [pick, List.getElem?_eq_getElem hlt]

theorem pick_mem (sl : List Entry) (j sid : Nat) (h : pick sl j = some sid) : ∃ e ∈ sl, e.id = sid := by
  unfold pick at h
  cases hg : sl[j % sl.length]? with
  | none => simp [hg] at h
  | some e =>
    simp [hg] at h
    exact ⟨e, List.mem_of_getElem? hg, h⟩

theorem mem_assign (sl : List Entry) (j : Nat) (hs : List Nat) (p : Nat × Nat)
    (h : p ∈ assign sl j hs) : p.2 ∈ hs ∧ ∃ e ∈ sl, e.id = p.1 := by
  induction hs generalizing j with
  | nil => simp [assign] at h
  | cons sh rest ih =>
    unfold assign at h
    split at h
    · rename_i sid hp
      rcases List.mem_cons.mp h with h | h
      · subst h
        exact ⟨List.mem_cons_self, pick_mem sl j sid hp⟩
      · obtain ⟨h1, h2⟩ := ih _ h
        exact ⟨List.mem_cons_of_mem _ h1, h2⟩
    · obtain ⟨h1, h2⟩ := ih _ h
      exact ⟨List.mem_cons_of_mem _ h1, h2⟩

theorem assign_covers (sl : List Entry) (hne : sl ≠ []) (j : Nat) (hs : List Nat) (sh : Nat)
    (h : sh ∈ hs) : ∃ sid, (sid, sh) ∈ assign sl j hs := by
  induction hs generalizing j with
  | nil => simp at h
  | cons x rest ih =>
    obtain ⟨e, _, he⟩ := pick_some sl j hne
    unfold assign
    rw [he]
    rcases List.mem_cons.mp h with h | h
    · subst h; exact ⟨e.id, List.mem_cons_self⟩
    · obtain ⟨sid, hsid⟩ := ih (j + 1) h
      exact ⟨sid, List.mem_cons_of_mem _ hsid⟩

theorem homed (goal : List (Nat × Nat)) (sh : Nat) (h : goal.any (·.2 == sh) = true) :
    ∃ sid, (sid, sh) ∈ goal := by
  obtain ⟨e, he, heq⟩ := List.any_eq_true.mp h
  have h2 : e.2 = sh := by simpa using heq
  exact ⟨e.1, by rw [← h2]; exact he⟩

theorem contains_congr (p₁ p₂ : List Nat) (h : ∀ x, x ∈ p₁ ↔ x ∈ p₂) (x : Nat) :
    p₁.contains x = p₂.contains x := by
  rw [Bool.eq_iff_iff]
  simp [h x]

theorem serverLe_congr (p₁ p₂ : List Nat) (h : ∀ x, x ∈ p₁ ↔ x ∈ p₂) : serverLe p₁ = serverLe p₂ := by
  funext a b
  simp only [serverLe, sortKey, contains_congr p₁ p₂ h]

section History
variable {Sig Msg : Type}

/-- the entry of a broker state for server id `i` -/
def findId (i : Nat) (st : List (Announced Sig Msg)) : Option (Announced Sig Msg) :=
  st.find? (fun x => x.id == i)

/-- one entry per server id -/
def UniqIds (st : List (Announced Sig Msg)) : Prop := st.Pairwise (fun x y => x.id ≠ y.id)

theorem mem_iff_findId (st : List (Announced Sig Msg)) (h : UniqIds st) (x : Announced Sig Msg) :
    x ∈ st ↔ findId x.id st = some x := by
  induction st with
  | nil => simp [findId]
  | cons y rest ih =>
    have hp := List.pairwise_cons.mp h
    unfold findId at ih ⊢
    by_cases hy : y.id = x.id
    · simp only [List.find?_cons, hy, beq_self_eq_true, Option.some.injEq, List.mem_cons]
      constructor
      · rintro (rfl | hx)
        · rfl
        · exact absurd hy (hp.1 x hx)
      · intro e; exact Or.inl e.symm
    · have hne : (y.id == x.id) = false := by simpa using hy
      simp only [List.find?_cons, hne, List.mem_cons]
      rw [← ih hp.2]
      constructor
      · rintro (rfl | hx)
        · exact absurd rfl hy
        · exact hx
      · exact Or.inr

theorem findId_filter_ne (st : List (Announced Sig Msg)) (i j : Nat) (h : i ≠ j) :
    findId i (st.filter (fun x => x.id != j)) = findId i st := by
  unfold findId
  rw [List.find?_filter]
  congr 1
  funext x
  by_cases hx : x.id = i
  · simp [hx, h]
  · simp [hx]

theorem findId_filter_eq (st : List (Announced Sig Msg)) (j : Nat) :
    findId j (st.filter (fun x => x.id != j)) = none := by
  unfold findId
  rw [List.find?_eq_none]
  intro x hx
  have := (List.mem_filter.mp hx).2
  simpa using this

theorem findId_append (st : List (Announced Sig Msg)) (s : Announced Sig Msg) (i : Nat) :
    findId i (st ++ [s]) = (findId i st).or (if s.id = i then some s else none) := by
  unfold findId
  rw [List.find?_append]
  by_cases h : s.id = i <;> simp [h]

theorem findId_announce (st : List (Announced Sig Msg)) (a : Announcement Sig Msg) (i : Nat) :
    findId i (announce st a) =
      match accept a with
      | some s => if s.id = i then some s else findId i st
      | none => findId i st := by
  unfold announce
  cases hacc : accept a with
  | none => rfl
  | some s =>
    simp only
    rw [findId_append]
    by_cases h : s.id = i
    · subst h; simp [findId_filter_eq]
    · have h' : i ≠ s.id := fun e => h e.symm
      simp [h, findId_filter_ne st i s.id h']

theorem uniq_announce (st : List (Announced Sig Msg)) (a : Announcement Sig Msg) (h : UniqIds st) :
    UniqIds (announce st a) := by
  unfold announce
  cases hacc : accept a with
  | none => exact h
  | some s =>
    simp only
    unfold UniqIds
    rw [List.pairwise_append]
    refine ⟨h.sublist List.filter_sublist, by simp, ?_⟩
    intro x hx y hy
    have hy' : y = s := by simpa using hy
    subst hy'
    have := (List.mem_filter.mp hx).2
    simpa using this

theorem foldl_announce (hist : List (Announcement Sig Msg)) (st : List (Announced Sig Msg)) (h : UniqIds st) (i : Nat) :
    UniqIds (hist.foldl announce st) ∧
    findId i (hist.foldl announce st) = hist.foldl (fun acc a =>
      match accept a with
      | some s => if s.id = i then some s else acc
      | none => acc) (findId i st) := by
  induction hist generalizing st with
  | nil => exact ⟨h, rfl⟩
  | cons a rest ih =>
    simp only [List.foldl_cons]
    have := ih (announce st a) (uniq_announce st a h)
    refine ⟨this.1, ?_⟩
    rw [this.2, findId_announce]

/-- the broker holds exactly the latest accepted announcement of every server id -/
theorem mem_brokerAfter_iff (hist : List (Announcement Sig Msg)) (x : Announced Sig Msg) :
    x ∈ brokerAfter hist ↔ latest x.id hist = some x := by
  have h := foldl_announce hist ([] : List (Announced Sig Msg)) List.Pairwise.nil x.id
  unfold brokerAfter latest
  rw [mem_iff_findId _ h.1, h.2]
  rfl

end History

end Tahoe.StorageClient
