/-!
Model of server selection in `allmydata/storage_client.py`
(`StorageFarmBroker.get_servers_for_psi`, `get_connected_servers`, `NativeStorageServer.upload_permitted`)
and of the server choice in `allmydata/mutable/publish.py` `Publish.update_goal`.
Mathlib-free; executable (used by `Drv/C32.lean`).

* A server is what the selection code reads of it: `get_longname()` (= server id), `is_connected()`,
  the current answer of `upload_permitted()` (the grid-manager verifier of C33 evaluated now), and
  `permute_server_hash(peer_selection_index, get_permutation_seed())` — the 20-byte SHA-1 digest,
  as a natural number (big-endian; equal-length byte strings compare like these numbers).  SHA-1 is
  computed by Python and handed to the driver.
* `get_connected_servers()` is a `frozenset`; its iteration order is the order of the input list
  here, and is arbitrary.  Python's `sorted` is stable, and so is `isort` below.
* `preferred` is `StorageClientConfig.preferred_peers` as the broker sees it **after the repair**
  `fixes/C32-preferred-bytes.diff` (server ids as bytes); the unchanged tree leaves the configured
  ids as `str`, which never equal the `bytes` ids, so `peers.preferred` is ignored.
-/
namespace Tahoe.StorageClient

/-- Python's `sorted` / `list.sort` (stable) modelled as a stable insertion sort: an element is
    placed before the first later element that is not strictly smaller, so equal keys keep their
    input order.  (Structural recursion, so the kernel can evaluate the examples.) -/
def ins {α : Type} (le : α → α → Bool) (a : α) : List α → List α
  | [] => [a]
  | b :: r => if le a b then a :: b :: r else b :: ins le a r

def isort {α : Type} (le : α → α → Bool) : List α → List α
  | [] => []
  | a :: l => ins le a (isort le l)

structure Server where
  id : Nat               -- interned `get_longname()` / `get_serverid()`
  connected : Bool       -- `is_connected()`
  permitted : Bool       -- `upload_permitted()` now
  hash : Nat             -- `permute_server_hash(psi, seed)` as a number
  deriving DecidableEq, Repr

/-- the sort key `_permuted(server) = (is_unpreferred, permute_server_hash(psi, seed))` -/
def sortKey (preferred : List Nat) (s : Server) : Bool × Nat :=
  (!preferred.contains s.id, s.hash)

/-- Python's `<=` on `(bool, bytes)` tuples (False < True, then the digest) -/
def keyLe (a b : Bool × Nat) : Bool :=
  (!a.1 && b.1) || (a.1 == b.1 && decide (a.2 ≤ b.2))

def serverLe (preferred : List Nat) (a b : Server) : Bool :=
  keyLe (sortKey preferred a) (sortKey preferred b)

/-- `get_servers_for_psi(peer_selection_index, for_upload)`; `servers` is `self.servers.values()`
    in the iteration order of the frozenset built from it -/
def getServersForPsi (preferred : List Nat) (forUpload : Bool) (servers : List Server) : List Server :=
  let connected := servers.filter (·.connected)
  let cands := if forUpload then connected.filter (·.permitted) else connected
  isort (serverLe preferred) cands

/-! ### `Publish.update_goal` -/

/-- entry `(len(old_assignments.get(server, [])), i, serverid, server)` of `serverlist` -/
structure Entry where
  count : Nat
  idx : Nat
  id : Nat
  deriving DecidableEq, Repr

def entryLe (a b : Entry) : Bool :=
  decide (a.count < b.count) || (a.count == b.count && decide (a.idx ≤ b.idx))

/-- the loop over `enumerate(self.full_serverlist)` (the counter is `i`): bad servers and servers
    that are not `upload_permitted()` are skipped -/
def candidates (goal : List (Nat × Nat)) (bad : List Nat) : Nat → List Server → List Entry
  | _, [] => []
  | i, s :: rest =>
    if bad.contains s.id then candidates goal bad (i + 1) rest
    else if !s.permitted then candidates goal bad (i + 1) rest
    else ⟨(goal.filter (·.1 == s.id)).length, i, s.id⟩ :: candidates goal bad (i + 1) rest

/-- `serverlist[i]` with `i` wrapping around -/
def pick (sl : List Entry) (j : Nat) : Option Nat := (sl[j % sl.length]?).map (·.id)

/-- the loop `for shnum in homeless_shares:` (the counter is `j`, before wrapping) -/
def assign (sl : List Entry) : Nat → List Nat → List (Nat × Nat)
  | _, [] => []
  | j, sh :: rest =>
    match pick sl j with
    | some sid => (sid, sh) :: assign sl (j + 1) rest
    | none => assign sl (j + 1) rest           -- not reached: `serverlist` is non-empty here

/-- `update_goal()`: `goal` is the set of `(server, shnum)`, `bad` is `self.bad_servers`, `full` is
    `self.full_serverlist`.  `none` = `NotEnoughServersError`. -/
def updateGoal (total : Nat) (goal : List (Nat × Nat)) (bad : List Nat) (full : List Server) :
    Option (List (Nat × Nat)) :=
  let goal' := goal.filter (fun e => !bad.contains e.1)
  let homeless := (List.range total).filter (fun sh => !goal'.any (·.2 == sh))
  if homeless.isEmpty then some goal'
  else
    let sl := isort entryLe (candidates goal' bad 0 full)
    if sl.isEmpty then none
    else some (goal' ++ assign sl 0 homeless)

end Tahoe.StorageClient
