import Tahoe.Base.DrvUtil
import Tahoe.Immutable.IntegrityBytes
/-! Driver for C02 (real SHA-256d hashes, real UEB parser).
  `offsets <version> <data> <plaintext_ht> <crypttext_ht> <block_hashes> <share_hashes> <uri_extension>`
        → `ok` | `layout`                                        (`Share._satisfy_offsets` checks)
  `dl <asis|fixed> <uebhash-hex> <k> <n> <size> <shnum> <guess> <share-hex>`
        whole-file `read(consumer, 0, size)` of a k = 1 file from ONE share (number `shnum`) whose bytes are
        `share-hex`; one `get_segment` per segment, each seeing the same bytes
        → `len=<bytes written> end=<done|error|pending> data=<hex written>`
  `dlseq <asis|fixed> <uebhash-hex> <k> <n> <size> <guess> <shnum:share-hex,…>`
        the same read when every `get_segment` is offered all the listed shares (several servers, in order)
        → as `dl`
  `gotseg <offset> <size> <segment_start> <segment_len>` → `<index in segment> <length>` | `wrong`  (`_got_segment`)
  `sat <asis|fixed> <uebhash-hex> <k> <n> <size> <shnum> <segnum> <share-hex>`
        one pass of `_get_satisfaction` on a fresh node → `block` | `corrupt` | `dead:<why>` | `badsegnum` | `wait` -/
open Tahoe.Drv Tahoe.Integrity Tahoe.IntegrityBytes Tahoe.Base.Merkle

def cfgOf (s : String) : Option Cfg :=
  if s == "asis" then some Cfg.asIs else if s == "fixed" then some Cfg.repaired else none

def showWhy : Why → String
  | .layout => "layout" | .badHash => "badhash" | .notEnough => "notenough"
  | .unavailable => "unavailable" | .exception => "exception"

def showRes : Res → String
  | .block _ => "block" | .corrupt => "corrupt" | .dead w => "dead:" ++ showWhy w
  | .badSegnum => "badsegnum" | .wait => "wait"

def showEnd : ReadEnd → String
  | .done => "done" | .error => "error" | .pending => "pending"

def pick0 : List Nat → Nat := fun l => l.headD 0

def handle : List String → String
  | ["offsets", v, d, p, c, b, s, u] =>
    match v.toNat?, d.toNat?, p.toNat?, c.toNat?, b.toNat?, s.toNat?, u.toNat? with
    | some v, some d, some p, some c, some b, some s, some u =>
      match satisfyOffsets v ⟨d, p, c, b, s, u⟩ with
      | none => "ok"
      | some w => showWhy w
    | _, _, _, _, _, _, _ => "bad-op"
  | ["dl", mode, uh, k, n, size, shnum, guess, shx] =>
    match cfgOf mode, bytesOfHex uh, k.toNat?, n.toNat?, size.toNat?, shnum.toNat?, guess.toNat?, bytesOfHex shx with
    | some cfg, some uh, some k, some n, some size, some shnum, some guess, some sh =>
      if k ≠ 1 then "bad-op" else
      let cap : Cap B := { uebHash := uh, k := k, n := n, size := size }
      let scripts : List (Script B) := (List.range (size + 2)).map (fun i =>
        match viewOf cap sh i with
        | none => []
        | some v => [(shnum, v)])
      let dec : Nat → List (Nat × B) → B := fun _ bl => (bl.head?.map (·.2)).getD []
      let r := read realEnv cfg pick0 dec cap guess scripts (Node.init B cap) 0 size
      s!"len={r.1.length} end={showEnd r.2} data={hexOfBytes r.1}"
    | _, _, _, _, _, _, _, _ => "bad-op"
  | ["dlseq", mode, uh, k, n, size, guess, seq] =>
    -- every segment request is offered every share of `seq` (`shnum:hex,shnum:hex,…`), in that order
    let parsed : Option (List (Nat × B)) := (seq.splitOn ",").mapM (fun e =>
      match e.splitOn ":" with
      | [a, b] => do pure ((← a.toNat?), (← bytesOfHex b))
      | _ => none)
    match cfgOf mode, bytesOfHex uh, k.toNat?, n.toNat?, size.toNat?, guess.toNat?, parsed with
    | some cfg, some uh, some k, some n, some size, some guess, some shares =>
      if k ≠ 1 then "bad-op" else
      let cap : Cap B := { uebHash := uh, k := k, n := n, size := size }
      let scripts : List (Script B) := (List.range (size + 2)).map (fun i =>
        shares.filterMap (fun (shnum, sh) => (viewOf cap sh i).map (fun v => (shnum, v))))
      let dec : Nat → List (Nat × B) → B := fun _ bl => (bl.head?.map (·.2)).getD []
      let r := read realEnv cfg pick0 dec cap guess scripts (Node.init B cap) 0 size
      s!"len={r.1.length} end={showEnd r.2} data={hexOfBytes r.1}"
    | _, _, _, _, _, _, _ => "bad-op"
  | ["gotseg", off, size, start, len] =>
    -- `Segmentation._got_segment`: which slice of the handed segment is written (`<first index> <length>`), or `wrong`
    match off.toNat?, size.toNat?, start.toNat?, len.toNat? with
    | some off, some size, some start, some len =>
      -- the segment's bytes are their own indices (mod 256 would lose information: use the slice arithmetic)
      let seg : B := List.replicate len 0
      match gotSegment off size start seg with
      | none => "wrong"
      | some d => s!"{off - start} {d.length}"
    | _, _, _, _ => "bad-op"
  | ["sat", mode, uh, k, n, size, shnum, segnum, shx] =>
    match cfgOf mode, bytesOfHex uh, k.toNat?, n.toNat?, size.toNat?, shnum.toNat?, segnum.toNat?, bytesOfHex shx with
    | some cfg, some uh, some k, some n, some size, some shnum, some segnum, some sh =>
      let cap : Cap B := { uebHash := uh, k := k, n := n, size := size }
      match viewOf cap sh segnum with
      | none => "wait"
      | some v => showRes (satisfy realEnv cfg pick0 cap (Node.init B cap) shnum segnum v).1
    | _, _, _, _, _, _, _, _ => "bad-op"
  | _ => "bad-op"

def main : IO Unit := mainLoop handle
