import Tahoe.Base.DrvUtil
import Tahoe.Immutable.IntegrityBytes
/-! Driver for C45 (real SHA-256d hashes, real UEB parser).
  `veup <k> <n> <size> <ueb-hex>` → `ok <block_size> <share_size> <num_segments> <tail_segment_size>` |
        `BadURIExtension` | `UnsupportedErasureCodec` | `exception`   (`ValidatedExtendedURIProxy._parse_and_validate`)
  `fmt <k> <n> <server:verified:corrupt:incompatible:responded;…|->`   lists joined by `.`, `-` = empty
        → `healthy=<0|1> recoverable=<0|1> good=<n> corrupt=<n> incompatible=<n>`     (`Checker._format_results`)
  `verify <asis|fixed> <hashtree asis|fixed> <uebhash-hex> <k> <n> <size> <shnum> <share-hex>`
        → `good` | `corrupt` | `incompatible` | `raised`                  (`Checker._download_and_verify`)
  `noverify <k> <n> <srv:claimed shnums|srv:x;…|->` → as `fmt`     (`_check_server_shares` for every server + `_format_results`)
  `fmtlists <results as for fmt>` → `corrupt=<srv.sh,…|-> incompatible=<srv.sh,…|->`   (locator lists of `_format_results`)
  `repairdecision <k> <n> <results as for fmt>` → `attempt=<0|1>`       (`CiphertextFileNode._maybe_repair`)
  `postrepair <k> <n> <pre-repair sharemap> <upload sharemap>`  (sharemap = `shnum:srv.srv;…` | `-`)
        → `healthy=<0|1> recoverable=<0|1> good=<n>`                      (`_gather_repair_results`)
  `repairparams <k> <n> <size> <validated-ueb-hex|->` → `<k> <N> <segment size>` | `none`   (`Repairer._got_segsize`)
  `repair <present shnums .-list> <requested .-list>` → `already=<…> written=<…>` (abstract storage spec) -/
open Tahoe.Drv Tahoe.Integrity Tahoe.IntegrityBytes Tahoe.Base.Merkle

def cfgOf (s : String) : Option Cfg :=
  if s == "asis" then some Cfg.asIs else if s == "fixed" then some Cfg.repaired else none

def vcfgOf (s : String) : Option VCfg :=
  if s == "asis" then some VCfg.asIs else if s == "fixed" then some VCfg.repaired else none

def dotList (s : String) : Option (List Nat) :=
  if s == "-" then some [] else (s.splitOn ".").mapM String.toNat?

def showList (l : List Nat) : String := if l.isEmpty then "-" else ".".intercalate (l.map toString)

def parseResult (s : String) : Option ServerResult :=
  match s.splitOn ":" with
  | [srv, v, c, i, r] => do
    pure { server := ← srv.toNat?, verified := ← dotList v, corrupt := ← dotList c, incompatible := ← dotList i,
           responded := r == "1" }
  | _ => none

def b01 (b : Bool) : String := if b then "1" else "0"

def pick0 : List Nat → Nat := fun l => l.headD 0

def handle : List String → String
  | ["veup", k, n, size, ux] =>
    match k.toNat?, n.toNat?, size.toNat?, bytesOfHex ux with
    | some k, some n, some size, some ub =>
      match parseUEB ub with
      | none => "exception"
      | some u =>
        match veupValidate ({ uebHash := [], k := k, n := n, size := size } : Cap B) u with
        | none => "exception"
        | some (.error .badURIExtension) => "BadURIExtension"
        | some (.error .unsupportedCodec) => "UnsupportedErasureCodec"
        | some (.ok i) => s!"ok {i.blockSize} {i.shareSize} {i.numSegments} {i.tailSegSize}"
    | _, _, _, _ => "bad-op"
  | ["fmt", k, n, rs] =>
    match k.toNat?, n.toNat?, (if rs == "-" then some [] else (rs.splitOn ";").mapM parseResult) with
    | some k, some n, some rs =>
      let c := formatResults k n rs
      s!"healthy={b01 c.healthy} recoverable={b01 c.recoverable} good={c.countGood} corrupt={c.countCorrupt} incompatible={c.countIncompatible}"
    | _, _, _ => "bad-op"
  | ["verify", mode, hmode, uh, k, n, size, shnum, shx] =>
    match vcfgOf mode, cfgOf hmode, bytesOfHex uh, k.toNat?, n.toNat?, size.toNat?, shnum.toNat?, bytesOfHex shx with
    | some vc, some cfg, some uh, some k, some n, some size, some shnum, some sh =>
      let cap : Cap B := { uebHash := uh, k := k, n := n, size := size }
      match verifyShare realEnv cfg vc pick0 cap shnum (vviewOf cap sh) with
      | .good => "good" | .corrupt => "corrupt" | .incompatible => "incompatible" | .raised => "raised"
    | _, _, _, _, _, _, _, _ => "bad-op"
  | ["noverify", k, n, ans] =>
    -- answers: `srv:sh.sh` (claimed buckets, `-` = none claimed) or `srv:x` (the server failed), joined by `;`
    let parsed : Option (List (Nat × Option (List Nat))) :=
      if ans == "-" then some [] else (ans.splitOn ";").mapM (fun e => match e.splitOn ":" with
        | [srv, b] => if b == "x" then srv.toNat?.map (fun s => (s, none))
                      else do pure ((← srv.toNat?), some (← dotList b))
        | _ => none)
    match k.toNat?, n.toNat?, parsed with
    | some k, some n, some a =>
      let c := checkNoVerify k n a
      s!"healthy={b01 c.healthy} recoverable={b01 c.recoverable} good={c.countGood} corrupt={c.countCorrupt} incompatible={c.countIncompatible}"
    | _, _, _ => "bad-op"
  | ["fmtlists", rs] =>
    match (if rs == "-" then some [] else (rs.splitOn ";").mapM parseResult) with
    | some rs =>
      let sh := fun (l : List (Nat × Nat)) => if l.isEmpty then "-" else ",".intercalate (l.map (fun (a, b) => s!"{a}.{b}"))
      s!"corrupt={sh (corruptLocators rs)} incompatible={sh (incompatibleLocators rs)}"
    | none => "bad-op"
  | ["repairdecision", k, n, rs] =>
    match k.toNat?, n.toNat?, (if rs == "-" then some [] else (rs.splitOn ";").mapM parseResult) with
    | some k, some n, some rs => s!"attempt={b01 (repairDecision k n rs)}"
    | _, _, _ => "bad-op"
  | ["postrepair", k, n, pre, ur] =>
    -- pre / ur: sharemaps `shnum:srv.srv;shnum:srv` | `-`
    let parseSm : String → Option (List (Nat × List Nat)) := fun t =>
      if t == "-" then some [] else (t.splitOn ";").mapM (fun e => match e.splitOn ":" with
        | [sh, ss] => do pure ((← sh.toNat?), (← dotList ss))
        | _ => none)
    match k.toNat?, n.toNat?, parseSm pre, parseSm ur with
    | some k, some n, some pre, some ur =>
      -- one ServerResult per (server, shnum) of the pre-repair sharemap, in sharemap order
      let preRs : List ServerResult := pre.flatMap (fun (sh, ss) => ss.map (fun srv => ⟨srv, [sh], [], [], true⟩))
      let urPairs : List (Nat × Nat) := ur.flatMap (fun (sh, ss) => ss.map (fun srv => (sh, srv)))
      let r := gatherRepairResults k n preRs urPairs
      s!"healthy={b01 r.healthy} recoverable={b01 r.recoverable} good={r.countGood}"
    | _, _, _, _ => "bad-op"
  | ["repairparams", k, n, size, ux] =>
    -- the node state after the UEB `ux` was validated (`-` = nothing validated yet)
    match k.toNat?, n.toNat?, size.toNat?, bytesOfHex ux with
    | some k, some n, size?, some ub =>
      let cap : Cap B := { uebHash := [], k := k, n := n, size := size?.getD 0 }
      let nd0 := Node.init B cap
      let nd : Node B := match parseUEB ub with
        | none => nd0
        | some u => match calcSizes cap.size cap.k u.segmentSize with
          | none => nd0
          | some sz => { nd0 with known := some (u, sz) }
      match repairParams cap nd with
      | none => "none"
      | some p => s!"{p.k} {p.n} {p.segSize}"
    | _, _, _, _ => "bad-op"
  | ["repair", present, req] =>
    match dotList present, dotList req with
    | some p, some r =>
      let st : Store := p.map (fun sh => (sh, [1]))
      let a := allocate st r
      let st' := repairOn st r (fun _ => [2])
      s!"already={showList a.1} written={showList ((st'.filter (fun e => e.2 == [2])).map (·.1))}"
    | _, _ => "bad-op"
  | _ => "bad-op"

def main : IO Unit := mainLoop handle
