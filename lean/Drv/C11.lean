import Tahoe.Base.DrvUtil
import Tahoe.Mutable.ServerMap
/-! Driver for C11 (and the servermap part of C14).

    `smap VTABLE op op …`      → every query function of the resulting ServerMap
    `upd  MODE RUN MUST OUT EXTRA COMPLETED NUMQ EPS PRIV FULL BAD EMPTY WITH VTABLE op op …`
                               → `_check_for_done`: decision, servers newly queried, remaining extra_servers

    VTABLE = verinfo;verinfo;…  (`-` if empty), verinfo = seq/roothash/iv/segsize/datalen/k/n/prefix/offsets
             (hex fields, `-` empty, iv `N` = None, offsets = comma list or `-`)
    op     = a:SERVER:SHNUM:VIDX (add_new_share)  b:SERVER:SHNUM:HEX (mark_bad_share)
             r:SERVER (mark_server_reachable)  u:SERVER (mark_server_unreachable)
    server lists: comma separated numbers or `-`.
    Versions are printed as their index in VTABLE; every collection is printed sorted. -/
open Tahoe.Drv Tahoe.Mutable

def natsOfHex (s : String) : Option (List Nat) := (bytesOfHex s).map (·.map UInt8.toNat)

def parseVer (t : String) : Option VerInfo :=
  match t.splitOn "/" with
  | [sq, rh, iv, ss, dl, k, n, pf, off] => do
    let iv' ← if iv == "N" then some none else (natsOfHex iv).map some
    pure { seqnum := ← sq.toNat?, rootHash := ← natsOfHex rh, iv := iv', segsize := ← ss.toNat?,
           datalength := ← dl.toNat?, k := ← k.toNat?, n := ← n.toNat?, pfx := ← natsOfHex pf,
           offsets := ← parseNatList off }
  | _ => none

def parseVTable (t : String) : Option (List VerInfo) :=
  if t == "-" then some [] else (t.splitOn ";").mapM parseVer

def applyOp (tbl : List VerInfo) (sm : ServerMap) (op : String) : Option ServerMap :=
  match op.splitOn ":" with
  | ["a", s, sh, vi] => do
      let v ← tbl[← vi.toNat?]?
      pure (sm.addNewShare (← s.toNat?) (← sh.toNat?) v)
  | ["b", s, sh, cs] => do pure (sm.markBadShare (← s.toNat?) (← sh.toNat?) (← natsOfHex cs))
  | ["r", s] => do pure (sm.markReachable (← s.toNat?))
  | ["u", s] => do pure (sm.markUnreachable (← s.toNat?))
  | _ => none

def buildMap (tbl : List VerInfo) : ServerMap → List String → Option ServerMap
  | sm, [] => some sm
  | sm, op :: rest => match applyOp tbl sm op with
    | some sm' => buildMap tbl sm' rest
    | none => none

def insertSorted (lt : α → α → Bool) (a : α) : List α → List α
  | [] => [a]
  | b :: l => if lt a b then a :: b :: l else b :: insertSorted lt a l

def sortBy (lt : α → α → Bool) (l : List α) : List α := l.foldr (insertSorted lt) []

def vidx (tbl : List VerInfo) (v : VerInfo) : Nat := (tbl.findIdx? (· == v)).getD 999999

def pairLt (a b : Nat × Nat) : Bool := a.1 < b.1 || (a.1 == b.1 && a.2 < b.2)

def joinOr (sep : String) (l : List String) : String := if l.isEmpty then "-" else sep.intercalate l

def showNats (l : List Nat) : String := joinOr "," ((sortBy (· < ·) l).map toString)

def showMap (tbl : List VerInfo) (sm : ServerMap) : String :=
  let byIdx {β : Type} (l : List (VerInfo × β)) : List (Nat × β) :=
    sortBy (fun a b => a.1 < b.1) (l.map (fun e => (vidx tbl e.1, e.2)))
  let vm := joinOr "|" ((byIdx sm.makeVersionmap).map (fun e =>
    s!"{e.1}:" ++ joinOr "," ((sortBy pairLt e.2).map (fun p => s!"{p.1}.{p.2}"))))
  let av := joinOr "|" ((byIdx sm.sharesAvailable).map (fun e => s!"{e.1}:{e.2.1}/{e.2.2.1}/{e.2.2.2}"))
  let rc := showNats (sm.recoverable.map (vidx tbl))
  let ur := showNats (sm.unrecoverable.map (vidx tbl))
  let best := match sm.bestRecoverable with | none => "N" | some v => toString (vidx tbl v)
  let newer := joinOr "|" ((byIdx sm.unrecoverableNewer).map (fun e => s!"{e.1}:{e.2.1}/{e.2.2}"))
  let shm := joinOr "|" ((sortBy (fun a b => a.1 < b.1) sm.makeSharemap).map (fun e => s!"{e.1}:" ++ showNats e.2))
  let perVer := joinOr "|" ((sortBy (· < ·) (sm.versions.map (vidx tbl))).map (fun i =>
    match tbl[i]? with
    | some v => s!"{i}:" ++ showNats (sm.allServersForVersion v)
    | none => "?"))
  let onSrv := joinOr "," ((sortBy pairLt (sm.known.map (·.1))).map (fun key =>
    match sm.versionOnServer key.1 key.2 with
    | some v => s!"{key.1}.{key.2}={vidx tbl v}"
    | none => s!"{key.1}.{key.2}=N"))
  let bad := joinOr "," ((sortBy (fun a b => pairLt a.1 b.1) sm.bad).map (fun e =>
    s!"{e.1.1}.{e.1.2}=" ++ hexOfBytes (e.2.map UInt8.ofNat)))
  let mg := if sm.needsMerge then "T" else "F"
  s!"vm={vm};av={av};rec={rc};unrec={ur};best={best};hi={sm.highestSeqnum};newer={newer};" ++
  s!"merge={mg};srv={showNats sm.allServers};shm={shm};ver={perVer};" ++
  s!"on={onSrv};bad={bad};reach={showNats sm.reachable};unreach={showNats sm.unreachable};" ++
  s!"next={newSeqnum (some sm)}"

def parseMode : String → Option Mode
  | "read" => some .read | "write" => some .write | "check" => some .check
  | "anything" => some .anything | "repair" => some .repair | _ => none

def parseBool : String → Option Bool
  | "T" => some true | "F" => some false | _ => none

def showDecision : Decision → String
  | .wait => "wait" | .done => "done" | .more n => s!"more:{n}"

def handle : List String → String
  | "smap" :: vt :: ops => match (do let tbl ← parseVTable vt; let sm ← buildMap tbl {} ops; pure (showMap tbl sm)) with
    | some s => s
    | none => "bad-op"
  | "upd" :: mode :: run :: must :: out :: extra :: comp :: numq :: eps :: priv :: full :: bad :: empty :: wsh :: vt :: ops =>
    match (do
      let tbl ← parseVTable vt
      let sm ← buildMap tbl {} ops
      let mode' ← parseMode mode
      let run' ← parseBool run
      let must' ← parseNatList must
      let out' ← parseNatList out
      let extra' ← parseNatList extra
      let comp' ← comp.toNat?
      let numq' ← numq.toNat?
      let eps' ← eps.toNat?
      let priv' ← parseBool priv
      let full' ← parseNatList full
      let bad' ← parseNatList bad
      let empty' ← parseNatList empty
      let wsh' ← parseNatList wsh
      let u : Upd := {
        mode := mode', running := run', mustQuery := must', outstanding := out', extra := extra',
        completed := comp', numToQuery := numq', epsilon := eps', needPrivkey := priv', full := full',
        bad := bad', empty := empty', withShares := wsh', sm := sm }
      let r := stepCheck u
      -- queried servers and remaining extra_servers are ordered lists (pop(0) order): not sorted
      pure (showDecision r.1 ++ ";" ++ joinOr "," (r.2.1.map toString) ++ ";" ++ joinOr "," (r.2.2.extra.map toString)
            ++ ";" ++ (if r.2.2.running then "T" else "F"))) with
    | some s => s
    | none => "bad-op"
  | _ => "bad-op"

def main : IO Unit := mainLoop handle
