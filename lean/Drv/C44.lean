import Tahoe.Base.DrvUtil
import Tahoe.Immutable.Helper
import Tahoe.Immutable.HelperClient
/-! Driver for C44.
    `fetch CHUNK CTHEX FAULTS` — FAULTS = `-` or faults joined by `,`: `n` (none), `rI` (I-th read_encrypted
       call of the attempt fails), `xI.K` (the helper dies at the I-th call and only the first K bytes of the partial file survive),
       `e` (failure after the fetch completed).  Output: one field per attempt
       made, `incomingLen/encodingLen/ok` (`x` = file absent), joined by `;`, then ` used=` hex of the
       ciphertext handed to the encoder (or `none`).
    `present ACTIVE SHNUMS TOTAL` — ACTIVE ∈ 0 1, SHNUMS = `-` or numbers joined by `,`, TOTAL = number or
       `none` (no UEB).  Output `present` | `need-new` | `need-active`.
    `presentp ACTIVE ANSWERS TOTAL` — the same with ANSWERS = `-` or `server.shnum` pairs joined by `,`
       (one per share file found).
    `hist TOTAL ev,…` — a history of the grid (`p.srv.shnum` share placed, `l.srv.shnum` share lost, `q` a client asks the
       helper); output `present`/`need` per query.
    `pick HASHELPER SIZE` — which uploader `Uploader.upload` picks: `literal` | `assisted` | `direct`.
    `reader CHUNK PTHEX KSHEX off:len,…` — the client-side reader (EncryptAnUploadable with CHUNKSIZE = CHUNK behind a
       RemoteEncryptedUploadable) answering a sequence of remote_read_encrypted(off, len); output hex per call (`N` = refused). -/
open Tahoe.Drv Tahoe.Helper

def parseFault (s : String) : Option Fault :=
  if s == "n" then some .none
  else if s == "e" then some .encode
  else if s.startsWith "r" then (s.drop 1).toString.toNat?.map Fault.read
  else if s.startsWith "x" then
    match ((s.drop 1).toString).splitOn "." with
    | [i, k] => do pure (Fault.crash (← i.toNat?) (← k.toNat?))
    | _ => none
  else none

def parseFaults (s : String) : Option (List Fault) :=
  if s == "-" then some [] else (s.splitOn ",").mapM parseFault

def showOptLen : Option (List UInt8) → String
  | none => "x"
  | some f => toString f.length

def handle : List String → String
  | ["fetch", c, h, fs] =>
    match c.toNat?, bytesOfHex h, parseFaults fs with
    | some chunk, some ct, some faults =>
      let tr := traceAttempts chunk ct ⟨none, none⟩ faults
      let fields := tr.map (fun x => s!"{showOptLen x.1.incoming}/{showOptLen x.1.encoding}/{if x.2 then 1 else 0}")
      let used := match (runAttempts chunk ct ⟨none, none⟩ faults).2 with
        | none => "none"
        | some u => hexOfBytes u
      (if fields.isEmpty then "-" else ";".intercalate fields) ++ " used=" ++ used
    | _, _, _ => "bad-op"
  | ["present", a, sh, tot] =>
    match (if a == "1" then some true else if a == "0" then some false else none), parseNatList sh with
    | some active, some shnums =>
      let ueb : Option (Option HUR) :=
        if tot == "none" then some none else tot.toNat?.map (fun n => some ⟨0, 1, n, 1, 0, n⟩)
      match ueb with
      | none => "bad-op"
      | some u =>
        match uploadChk active shnums u with
        | .present _ => "present"
        | .needUpload true => "need-new"
        | .needUpload false => "need-active"
    | _, _ => "bad-op"
  | ["presentp", a, ans, tot] =>
    let pairs : Option (List (Nat × Nat)) :=
      if ans == "-" then some [] else
      (ans.splitOn ",").mapM (fun e => match e.splitOn "." with
        | [sv, sh] => do pure ((← sv.toNat?), (← sh.toNat?))
        | _ => none)
    match (if a == "1" then some true else if a == "0" then some false else none), pairs with
    | some active, some answers =>
      let ueb : Option (Option HUR) :=
        if tot == "none" then some none else tot.toNat?.map (fun n => some ⟨0, 1, n, 1, 0, n⟩)
      match ueb with
      | none => "bad-op"
      | some u =>
        match uploadChk active (answers.map (·.2)) u with
        | .present _ => "present"
        | .needUpload true => "need-new"
        | .needUpload false => "need-active"
    | _, _ => "bad-op"
  | ["hist", tot, evs] =>
    let parsed : Option (List GridEvent) := (evs.splitOn ",").mapM (fun e => match e.splitOn "." with
      | ["q"] => some GridEvent.query
      | ["p", a, b] => do pure (GridEvent.placed (← a.toNat?) (← b.toNat?))
      | ["l", a, b] => do pure (GridEvent.lost (← a.toNat?) (← b.toNat?))
      | _ => none)
    match tot.toNat?, parsed with
    | some total, some l => ",".intercalate ((answersOver total [] l).map (fun b => if b then "present" else "need"))
    | _, _ => "bad-op"
  | ["pick", h, sz] =>
    match (if h == "1" then some true else if h == "0" then some false else none), sz.toNat? with
    | some hasHelper, some size =>
      match pickUploader hasHelper size with
      | .literal => "literal"
      | .assisted => "assisted"
      | .direct => "direct"
    | _, _ => "bad-op"
  | ["reader", c, pth, ksh, rs] =>
    let reads : Option (List (Nat × Nat)) := (rs.splitOn ",").mapM (fun e => match e.splitOn ":" with
      | [a, b] => do pure ((← a.toNat?), (← b.toNat?))
      | _ => none)
    match c.toNat?, bytesOfHex pth, bytesOfHex ksh, reads with
    | some chunk, some pt, some ks, some l =>
      ";".intercalate ((remoteReads chunk pt ks ⟨⟨0, 0⟩, 0⟩ l).map (fun o => match o with
        | none => "N"
        | some b => hexOfBytes b))
    | _, _, _, _ => "bad-op"
  | _ => "bad-op"

def main : IO Unit := mainLoop handle
