import Tahoe.Base.DrvUtil
import Tahoe.Http.DrvText
/-! Driver for C30 (HTTP storage API authorization).

  b64d <hex of the utf-8 text>            → hex of `base64.b64decode(text)` | E (ValueError) | U (not utf-8)
  b64e <hex>                              → hex of `base64.b64encode`
  utf8 <hex>                              → code points `n,n,…` | U
  secrets <name,name,…|-> <hex> <hex> …   → `_extract_secrets` on the header values (utf-8 bytes), required set:
                                            ok:<name>=<hex>,… (insertion order) | err:<kind> | undecodable
  auth <swissnum hex> <hex> …             → ok | wrong | badunicode
  route <METHOD> </path>                  → <route>:<si>:<shnum>:<required names> | noroute
  hist <swissnum hex> <request|@node:…|@migrate:…> … → per request `<status>:<body>:<changed 0/1>`, then `||` and the final state
-/
open Tahoe.Drv Tahoe.Http Tahoe.Http.Text

def showCodes (l : List Nat) : String := if l.isEmpty then "-" else ",".intercalate (l.map toString)

def errName : SecretsError → String
  | .badHeader => "bad-header"
  | .emptySecret => "empty-secret"
  | .leaseLength => "lease-length"
  | .wrongSet => "wrong-set"

def parseRequired (s : String) : Option (List Secret) :=
  if s == "-" then some [] else (s.splitOn ",").mapM Secret.ofName

/-- control tokens between requests: `@node:<nodeid>` (the serving node's id) and `@migrate:<swissnum>:<nodeid>` (the
share directory is now served by a node with this swissnum and nodeid), `@expire:<si>:<n>` (that upload timed out /
its client disconnected); all print `ctl` -/
def controlTok (sw : Tahoe.Http.Bytes) (st : State) (tok : String) : Option (Tahoe.Http.Bytes × State) :=
  match tok.splitOn ":" with
  | ["@node", n] => do pure (sw, { st with myNodeid := ← bytesOfHex n })
  | ["@migrate", s, n] => do pure (← bytesOfHex s, migrate st (← bytesOfHex n))
  | ["@expire", si, n] => do pure (sw, stepEvent sw st (.expire (si, ← n.toNat?)))
  | _ => none

def runHist (sw : Tahoe.Http.Bytes) (st : State) (acc : List String) : List String → Option (List String × State)
  | [] => some (acc.reverse, st)
  | tok :: rest =>
    if tok.startsWith "@" then
      match controlTok sw st tok with
      | none => none
      | some (sw', st') => runHist sw' st' ("ctl" :: acc) rest
    else match parseRequest tok with
    | none => none
    | some rq =>
      let r := step sw st rq
      let chg := if r.1 = st then "0" else "1"
      runHist sw r.1 (s!"{showResponse r.2}:{chg}" :: acc) rest

def routeName (r : Route) : String := (reprStr r).replace "Tahoe.Http.Route." ""

def handle : List String → String
  | ["b64d", h] => match bytesOfHex h with
    | none => "bad-op"
    | some b => match utf8Decode b with
      | none => "U"
      | some cs => match b64decodeStr cs with
        | none => "E"
        | some out => hex out
  | ["b64e", h] => match bytesOfHex h with
    | none => "bad-op"
    | some b => hex (b64encode b)
  | ["utf8", h] => match bytesOfHex h with
    | none => "bad-op"
    | some b => match utf8Decode b with
      | none => "U"
      | some cs => showCodes cs
  | "secrets" :: req :: hdrs =>
    match parseRequired req, hdrs.mapM bytesOfHex with
    | some required, some hs =>
      match hs.mapM utf8Decode with
      | none => "undecodable"
      | some vals => match extractSecrets vals required with
        | .error e => "err:" ++ errName e
        | .ok d => "ok:" ++ ",".intercalate (d.map fun p => p.1.name ++ "=" ++ hex p.2)
    | _, _ => "bad-op"
  | "auth" :: sw :: vals =>
    match bytesOfHex sw, vals.mapM bytesOfHex with
    | some s, some vs => match authCheck s vs with
      | .ok => "ok"
      | .wrong => "wrong"
      | .badUnicode => "badunicode"
    | _, _ => "bad-op"
  | ["route", m, p] =>
    match parsePath p with
    | none => "bad-op"
    | some segs => match matchRoute m segs with
      | none => "noroute"
      | some x => s!"{routeName x.route}:{x.args.si}:{x.args.shnum}:" ++
          (if x.required.isEmpty then "-" else ",".intercalate (x.required.map Secret.name))
  | "hist" :: sw :: reqs =>
    match bytesOfHex sw with
    | none => "bad-op"
    | some s => match runHist s {} [] reqs with
      | none => "bad-op"
      | some (outs, st) => " ".intercalate outs ++ " || " ++ showState st
  | _ => "bad-op"

def main : IO Unit := mainLoop handle
