import Tahoe.Base.DrvUtil
import Tahoe.Mutable.Content
import Tahoe.Mutable.Handle
/-! Driver for C09.
    `hist K MAXSEG op op …`   one whole history; ops:
       `c:s:HEX` / `c:m:HEX`  create SDMF / MDMF        `o:HEX`  overwrite
       `m:set:HEX` `m:app:HEX` `m:pre:HEX` `m:none` `m:same` `m:cut:N`   modify with that modifier
       `u:OFF:HEX`  update     `r:OFF:SIZE` / `r:OFF:n`  read (n = None)
       `p` obtain a version object (no output); `hu:` `ho:` `hm:…` `hr:` = update / overwrite / modify / read through
       that object (obtained implicitly if there is none); a read through it may answer `err:key`
     output: one field per op joined by `;` — mutators `ok:SEGSIZE:LEN` or `err:KIND`, reads HEX or `err:KIND`.
    `tu SEGSIZE OFFSET NEWHEX STARTHEX ENDHEX L1,L2,…`  TransformingUploadable.read for each length → HEX,HEX,…
    `enc K MAXSEG s|m DATALEN OFFSET UPLOADSIZE`  → `SEGSIZE NUMSEGS TAIL STARTING END` (setup_encoding_parameters;
       whole-file publish: OFFSET = 0, UPLOADSIZE = DATALEN)
    `rng SEGSIZE OLDSIZE OFF LEN` → `START END` (_do_update_update)
    `ud K SEGSIZE CONTENTHEX VER START END SH:VER:S:E …` → `STARTHEX ENDHEX` or `err:KIND`: the entries are recorded in
       order (`_got_update_results_one_share`), then `_decode_and_decrypt_segments` for an object of version VER
    `dec SEGSIZE K SEGNUM CONTENTHEX` → `JOINEDLEN HEX` (Retrieve._decode_blocks: length of the decoder's joined
       output, and the segment after the size_to_use cut) -/
open Tahoe.Drv Tahoe.Mutable.Content

def showErr : Err → String
  | .zerodiv => "err:zerodiv"
  | .assertion => "err:assert"
  | .index => "err:index"

def showSt : Option Version → String
  | some v => s!"ok:{v.segsize}:{v.content.length}"
  | none => "ok:none"

def parseFmt : String → Option Fmt
  | "s" => some .sdmf
  | "m" => some .mdmf
  | _ => none

def parseOp (tok : String) : Option (Sum Op (Nat × Option Nat)) :=
  match tok.splitOn ":" with
  | ["c", f, h] => do pure (.inl (.create (← parseFmt f) (← bytesOfHex h)))
  | ["o", h] => do pure (.inl (.overwrite (← bytesOfHex h)))
  | ["m", "set", h] => do let b ← bytesOfHex h; pure (.inl (.modify (fun _ => some b)))
  | ["m", "app", h] => do let b ← bytesOfHex h; pure (.inl (.modify (fun old => some (old ++ b))))
  | ["m", "pre", h] => do let b ← bytesOfHex h; pure (.inl (.modify (fun old => some (b ++ old))))
  | ["m", "none"] => some (.inl (.modify (fun _ => none)))
  | ["m", "same"] => some (.inl (.modify (fun old => some old)))
  | ["m", "cut", n] => do let n ← n.toNat?; pure (.inl (.modify (fun old => some (old.take n))))
  | ["u", o, h] => do pure (.inl (.update (← o.toNat?) (← bytesOfHex h)))
  | ["r", o, "n"] => do pure (.inr ((← o.toNat?), none))
  | ["r", o, s] => do pure (.inr ((← o.toNat?), some (← s.toNat?)))
  | _ => none

/-- handle tokens: `p`, or `h` + a plain token -/
def parseHeld (tok : String) : Option HOp :=
  if tok == "p" then some .pin
  else if tok.startsWith "h" then
    match parseOp (tok.drop 1).toString with
    | some (.inl (.update o d)) => some (.update o d)
    | some (.inl (.overwrite d)) => some (.overwrite d)
    | some (.inl (.modify m)) => some (.modify m)
    | some (.inr (o, sz)) => some (.read o sz)
    | _ => none
  else none

def showHOut (s : HState) : HOut → Option String
  | .none => none
  | .ok => some (showSt (some s.file))
  | .refused e => some (showErr e)
  | .keyError => some "err:key"
  | .bytes b => some (hexOfBytes b)

def runHist (cfg : Cfg) : Option Version → Nat → Option Handle → List String → List String → Option (List String)
  | _, _, _, acc, [] => some acc.reverse
  | st, seq, hd, acc, tok :: rest =>
    match parseHeld tok with
    | some hop =>
      match st with
      | none => none
      | some v =>
        let h0 : Handle := match hd with
          | some h => h
          | none => { pinned := seq, pinnedVer := v, smapSeq := seq, smapVer := v }
        let r := hstep cfg { seq := seq, file := v, h := h0 } hop
        let acc' := match showHOut r.1 r.2 with | some o => o :: acc | none => acc
        runHist cfg (some r.1.file) r.1.seq (some r.1.h) acc' rest
    | none =>
    match parseOp tok with
    | none => none
    | some (.inl op) =>
      match step cfg st op with
      | .ok st' => runHist cfg st' (seq + 1) hd (showSt st' :: acc) rest
      | .error e => runHist cfg st seq hd (showErr e :: acc) rest
    | some (.inr (off, size?)) =>
      match st with
      | none => runHist cfg st seq hd ("err:assert" :: acc) rest
      | some v =>
        match read cfg.k v off size? with
        | .ok b => runHist cfg st seq hd (hexOfBytes b :: acc) rest
        | .error e => runHist cfg st seq hd (showErr e :: acc) rest

def tuReads (t : TU) (acc : List String) : List Nat → List String
  | [] => acc.reverse
  | l :: ls => let r := t.read l; tuReads r.2 (hexOfBytes r.1 :: acc) ls

def handle : List String → String
  | "hist" :: k :: ms :: ops =>
    match k.toNat?, ms.toNat? with
    | some k, some ms =>
      if k = 0 then "bad-op" else
      match runHist { k := k, maxSeg := ms } none 0 none [] ops with
      | some outs => ";".intercalate outs
      | none => "bad-op"
    | _, _ => "bad-op"
  | ["tu", seg, off, nh, sh, eh, lens] =>
    match seg.toNat?, off.toNat?, bytesOfHex nh, bytesOfHex sh, bytesOfHex eh, parseNatList lens with
    | some seg, some off, some n, some s, some e, some ls =>
      if seg = 0 then "bad-op" else ",".intercalate (tuReads (TU.init n off seg s e) [] ls)
    | _, _, _, _, _, _ => "bad-op"
  | ["enc", k, ms, f, dl, off, up] =>
    match k.toNat?, ms.toNat?, parseFmt f, dl.toNat?, off.toNat?, up.toNat? with
    | some k, some ms, some f, some dl, some off, some up =>
      if k = 0 then "bad-op" else
      let seg := pubSegsize { k := k, maxSeg := ms } f dl
      if seg = 0 then s!"0 0 0 0 -1" else
      s!"{seg} {numSegments dl seg} {tailSize dl seg} {off / seg} {pubEndSegment dl seg up}"
    | _, _, _, _, _, _ => "bad-op"
  | ["rng", seg, size, off, len] =>
    match seg.toNat?, size.toNat?, off.toNat?, len.toNat? with
    | some seg, some size, some off, some len =>
      if seg = 0 then "bad-op" else
      let r := updateRange size seg off len
      s!"{r.1} {r.2}"
    | _, _, _, _ => "bad-op"
  | "ud" :: k :: seg :: h :: ver :: st :: en :: entries =>
    match k.toNat?, seg.toNat?, bytesOfHex h, ver.toNat?, st.toNat?, en.toInt? with
    | some k, some seg, some c, some ver, some st, some en =>
      if seg = 0 ∨ k = 0 then "bad-op" else
      let parse (t : String) : Option (Nat × List Item) :=
        match t.splitOn ":" with
        | [sh, v, s, e] => do
            pure ((← sh.toNat?), [.verinfo (← v.toNat?), .blockhashes, .block (← s.toInt?), .block (← e.toInt?)])
        | _ => none
      match entries.mapM parse with
      | none => "bad-op"
      | some es =>
        let ud := es.foldl (fun ud (p : Nat × List Item) =>
          match gotUpdateResults p.2 with | some en => recordUpdate ud p.1 en | none => ud) ([] : UpdateData)
        match boundarySegmentsOf ud (.verinfo ver) c seg k st en with
        | .ok (a, b) => s!"{hexOfBytes a} {hexOfBytes b}"
        | .error e => showErr e
    | _, _, _, _, _, _ => "bad-op"
  | ["dec", seg, k, sn, h] =>
    match seg.toNat?, k.toNat?, sn.toNat?, bytesOfHex h with
    | some seg, some k, some sn, some c =>
      if seg = 0 ∨ k = 0 then "bad-op" else
      s!"{(decodedJoined c seg k sn).length} {hexOfBytes (decodeBlocks c seg k sn)}"
    | _, _, _, _ => "bad-op"
  | _ => "bad-op"

def main : IO Unit := mainLoop handle
