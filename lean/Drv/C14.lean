import Tahoe.Mutable.SmapParse
import Tahoe.Mutable.CheckRepair
/-! Driver for C14.

    `check VTABLE op op …`  → healthy;recoverable;need_repair;good/needed/expected/hosts/wrong;#recoverable;#unrecoverable
                              (`_make_checker_results`, `_got_mapupdate_results`, `_count_shares`)
    `checkv SRV.SH,SRV.SH,… VTABLE op op …` → as `check`, after the verifier marked those slots bad (`afterVerify`)
    `repair FORCE WRITEKEY VTABLE op op …` → decision of `Repairer._got_full_servermap`:
                              unrepairable | MustForceRepairError:newer | MustForceRepairError:merge |
                              RepairRequiresWritecapError | republish:VIDX:NEWSEQ
    `getver N|VIDX VTABLE op op …` → `_get_version_from_servermap`'s choice: VIDX or UnrecoverableFileError
    VTABLE and ops as in `Drv/C11.lean`. -/
open Tahoe.Drv Tahoe.Mutable Tahoe.Mutable.Parse Tahoe.Mutable.Check

def tf (b : Bool) : String := if b then "T" else "F"

def parseTF : String → Option Bool
  | "T" => some true | "F" => some false | _ => none

def handle : List String → String
  | "check" :: vt :: ops =>
    match (do
      let tbl ← parseVTable vt
      let sm ← buildMap tbl {} ops
      let r := makeCheckerResults sm
      let c := r.counters
      pure (tf r.healthy ++ ";" ++ tf r.recoverable ++ ";" ++ tf (needRepair sm) ++ ";" ++
            s!"{c.good}/{c.needed}/{c.expected}/{c.goodHosts}/{c.wrong}" ++ ";" ++
            s!"{r.numRecoverable};{r.numUnrecoverable}")) with
    | some s => s
    | none => "bad-op"
  | "checkv" :: marks :: vt :: ops =>
    match (do
      let tbl ← parseVTable vt
      let sm0 ← buildMap tbl {} ops
      let ms ← if marks == "-" then some [] else (marks.splitOn ",").mapM (fun t => match t.splitOn "." with
        | [a, b] => do pure (((← a.toNat?), (← b.toNat?)), ([0] : List Nat))
        | _ => none)
      let sm := afterVerify sm0 ms
      let r := makeCheckerResults sm
      let c := r.counters
      pure (tf r.healthy ++ ";" ++ tf r.recoverable ++ ";" ++ tf (needRepair sm) ++ ";" ++
            s!"{c.good}/{c.needed}/{c.expected}/{c.goodHosts}/{c.wrong}" ++ ";" ++
            s!"{r.numRecoverable};{r.numUnrecoverable}")) with
    | some s => s
    | none => "bad-op"
  | "repair" :: force :: wk :: vt :: ops =>
    match (do
      let tbl ← parseVTable vt
      let sm ← buildMap tbl {} ops
      pure (match repairDecide sm (← parseTF force) (← parseTF wk) with
        | .notRepairable => "unrepairable"
        | .mustForceNewer => "MustForceRepairError:newer"
        | .mustForceMerge => "MustForceRepairError:merge"
        | .needWritecap => "RepairRequiresWritecapError"
        | .republish v s => s!"republish:{vidx tbl v}:{s}")) with
    | some s => s
    | none => "bad-op"
  | "getver" :: want :: vt :: ops =>
    match (do
      let tbl ← parseVTable vt
      let sm ← buildMap tbl {} ops
      let v ← if want == "N" then some none else (do let i ← want.toNat?; pure (some (← tbl[i]?)))
      pure (match getVersion sm v with
        | none => "UnrecoverableFileError"
        | some w => s!"{vidx tbl w}")) with
    | some s => s
    | none => "bad-op"
  | _ => "bad-op"

def main : IO Unit := mainLoop handle
