import Tahoe.Base.DrvUtil
import Tahoe.Immutable.Sizes
import Tahoe.Immutable.Layout
import Tahoe.Immutable.Pipeline
import Tahoe.Immutable.Examples
import Tahoe.Immutable.Uploadable
/-! Driver for C01 (immutable sizes, share layout, upload pipeline).
    `sizes SIZE K MAXSEG`            → `seg=S|Err;enc=…;dl=…`  (uploader segsize, encoder numbers, downloader numbers)
    `enc SIZE K SEGSIZE`             → encoder numbers `seg,nseg,share,tail,padded,block,tailblock` or the exception name
    `dl SIZE K SEGSIZE`              → `_calculate_sizes` numbers `tail,padded,nseg,block,tailblock` or the exception name
    `guess SIZE K DEFAULTMAX`        → guessed segment size
    `offsets V DATA BLOCK NSEG NSH UEB` (V ∈ 1 | 2 | a = make_write_bucket_proxy)
                                     → `vN;data,pht,cht,bh,sh,ueb;allocated;HEADERHEX` or the exception name
    `parse HEX`                      → `vN;data,pht,cht,bh,sh,ueb` or the exception name
    `blocks SIZE K SEGSIZE DATASTART`→ `start+len,…` of every block the reader fetches
    `wseq V DATA BLOCK NSEG NSH UEB` → the writer's (offset+len) sequence and the contiguity verdict
    `shares K MAXSEG KSHEX PTHEX`    → data sections of shares 0..K-1 under a systematic code (block j = piece j),
                                       ciphertext = PT xor KS, joined by `,`; then `;` UEB numbers
    `sharesvia K MAXSEG CHUNK KSHEX PTHEX SIZES` → like `shares`, but the plaintext reaches the encoder through an IUploadable whose
                                       read() returns pieces of the cycling SIZES and through read_encrypted's CHUNK loop
    `sharesrs K N MAXSEG KSHEX PTHEX` → data sections of ALL N shares under zfec's code as transcribed by C36 (`rs256Codec`), then the
                                       model's own download from a rotating choice of K shares per segment: `S0,S1,…;PLAINTEXTHEX`
    `updown K N MAXSEG KSHEX PTHEX PICKSEED` → downloads through the model with a systematic K-of-K.. code: `ok` / mismatch -/
open Tahoe.Drv Tahoe.Immutable Tahoe.Immutable.Sizes Tahoe.Immutable.Layout Tahoe.Immutable.Pipeline

def showErr (e : Err) : String := e.toString

def showEnc (r : Except Err EncSizes) : String :=
  match r with
  | .error e => showErr e
  | .ok e => showNatList [e.segmentSize, e.numSegments, e.shareSize, e.tailSize, e.paddedTailSize, e.blockSize, e.tailBlockSize]

def showDl (r : Except Err DlSizes) : String :=
  match r with
  | .error e => showErr e
  | .ok d => showNatList [d.tailSegmentSize, d.tailSegmentPadded, d.numSegments, d.blockSize, d.tailBlockSize]

def showOffsets (o : Offsets) : String :=
  showNatList [o.data, o.plaintextHashTree, o.crypttextHashTree, o.blockHashes, o.shareHashes, o.uriExtension]

def verName : Ver → String
  | .v1 => "v1"
  | .v2 => "v2"

def handle : List String → String
  | ["sizes", size, k, maxSeg] =>
    match size.toNat?, k.toNat?, maxSeg.toNat? with
    | some size, some k, some maxSeg =>
      match segSize k maxSeg size with
      | .error e => "seg=" ++ showErr e
      | .ok s => s!"seg={s};enc={showEnc (encoderSizes size k s)};dl={showDl (calculateSizes size k s)}"
    | _, _, _ => "bad-op"
  | ["enc", size, k, seg] =>
    match size.toNat?, k.toNat?, seg.toNat? with
    | some size, some k, some seg => showEnc (encoderSizes size k seg)
    | _, _, _ => "bad-op"
  | ["dl", size, k, seg] =>
    match size.toNat?, k.toNat?, seg.toNat? with
    | some size, some k, some seg => showDl (calculateSizes size k seg)
    | _, _, _ => "bad-op"
  | ["guess", size, k, dm] =>
    match size.toNat?, k.toNat?, dm.toNat? with
    | some size, some k, some dm => toString (guessedSegSize size k dm)
    | _, _, _ => "bad-op"
  | ["offsets", v, ds, bs, nseg, nsh, ueb] =>
    match ds.toNat?, bs.toNat?, nseg.toNat?, nsh.toNat?, ueb.toNat? with
    | some ds, some bs, some nseg, some nsh, some ueb =>
      let p : Params := { dataSize := ds, blockSize := bs, numSegments := nseg, numShareHashes := nsh, uriExtensionSize := ueb }
      let r : Option (Except Err (Ver × Offsets × List UInt8)) :=
        if v == "1" then some ((createOffsets .v1 p).map (fun x => (Ver.v1, x.1, x.2)))
        else if v == "2" then some ((createOffsets .v2 p).map (fun x => (Ver.v2, x.1, x.2)))
        else if v == "a" then some (makeWriteBucketProxy p)
        else none
      match r with
      | none => "bad-op"
      | some (.error e) => showErr e
      | some (.ok (ver, o, hdr)) => s!"{verName ver};{showOffsets o};{allocatedSize ver p o};{hexOfBytes hdr}"
    | _, _, _, _, _ => "bad-op"
  | ["parse", hex] =>
    match bytesOfHex hex with
    | none => "bad-op"
    | some b =>
      match parseOffsets b with
      | .error e => showErr e
      | .ok (v, o) => s!"{verName v};{showOffsets o}"
  | ["blocks", size, k, seg, dstart] =>
    match size.toNat?, k.toNat?, seg.toNat?, dstart.toNat? with
    | some size, some k, some seg, some dstart =>
      match calculateSizes size k seg with
      | .error e => showErr e
      | .ok d =>
        let o : Offsets := { data := dstart, plaintextHashTree := 0, crypttextHashTree := 0, blockHashes := 0, shareHashes := 0, uriExtension := 0 }
        ",".intercalate ((List.range d.numSegments).map (fun s => s!"{readBlockStart o d s}+{readBlockLen d s}"))
    | _, _, _, _ => "bad-op"
  | ["wseq", v, ds, bs, nseg, nsh, ueb] =>
    match ds.toNat?, bs.toNat?, nseg.toNat?, nsh.toNat?, ueb.toNat? with
    | some ds, some bs, some nseg, some nsh, some ueb =>
      let p : Params := { dataSize := ds, blockSize := bs, numSegments := nseg, numShareHashes := nsh, uriExtensionSize := ueb }
      let ver? : Option Ver := if v == "1" then some .v1 else if v == "2" then some .v2 else none
      match ver? with
      | none => "bad-op"
      | some ver =>
        match createOffsets ver p with
        | .error e => showErr e
        | .ok (o, hdr) =>
          let ws := writeSequence ver p o hdr
          let verdict := match contiguousFrom 0 ws with
            | none => "gap"
            | some t => toString t
          ",".intercalate (ws.map (fun x => s!"{x.1}+{x.2}")) ++ ";" ++ verdict
    | _, _, _, _, _ => "bad-op"
  | ["shares", k, maxSeg, kshex, pthex] =>
    match k.toNat?, maxSeg.toNat?, bytesOfHex kshex, bytesOfHex pthex with
    | some k, some maxSeg, some ksb, some pt =>
      let ksa := ksb.toArray
      match upload (ksOfArray ksa) sysCodec () pt k k maxSeg with
      | .error e => showErr e
      | .ok u =>
        ",".intercalate (u.shares.map hexOfBytes) ++ ";" ++
          showNatList [u.ueb.size, u.ueb.segmentSize, u.ueb.numSegments, u.ueb.neededShares, u.ueb.codecSize, u.ueb.tailCodecSize]
    | _, _, _, _ => "bad-op"
  | ["sharesvia", k, maxSeg, chunk, kshex, pthex, sizes] =>
    match k.toNat?, maxSeg.toNat?, chunk.toNat?, bytesOfHex kshex, bytesOfHex pthex, parseNatList sizes with
    | some k, some maxSeg, some chunk, some ksb, some pt, some sizes =>
      let ksa := ksb.toArray
      match Uploadable.uploadVia (fun _ => ksOfArray ksa ()) sysCodec (Uploadable.chunkySource pt sizes (fun _ => [])) k k maxSeg chunk with
      | .error e => showErr e
      | .ok u =>
        ",".intercalate (u.shares.map hexOfBytes) ++ ";" ++
          showNatList [u.ueb.size, u.ueb.segmentSize, u.ueb.numSegments, u.ueb.neededShares, u.ueb.codecSize, u.ueb.tailCodecSize]
    | _, _, _, _, _, _ => "bad-op"
  | ["sharesrs", k, n, maxSeg, kshex, pthex] =>
    match k.toNat?, n.toNat?, maxSeg.toNat?, bytesOfHex kshex, bytesOfHex pthex with
    | some k, some n, some maxSeg, some ksb, some pt =>
      let ksa := ksb.toArray
      match upload (ksOfArray ksa) rs256Codec () pt k n maxSeg with
      | .error e => showErr e
      | .ok u =>
        let pick : Nat → List Nat := fun s => (List.range k).map (fun j => (j + s) % n)
        let back := match download (ksOfArray ksa) rs256Codec u pick with
          | .error e => showErr e
          | .ok out => hexOfBytes out
        ",".intercalate (u.shares.map hexOfBytes) ++ ";" ++ back
    | _, _, _, _, _ => "bad-op"
  | ["updown", k, maxSeg, kshex, pthex, seed] =>
    match k.toNat?, maxSeg.toNat?, bytesOfHex kshex, bytesOfHex pthex, seed.toNat? with
    | some k, some maxSeg, some ksb, some pt, some seed =>
      let ksa := ksb.toArray
      match upload (ksOfArray ksa) sysCodec () pt k k maxSeg with
      | .error e => showErr e
      | .ok u =>
        -- a rotation of 0..k-1 per segment: any order of the k share numbers
        let pick : Nat → List Nat := fun s => (List.range k).map (fun j => (j + seed + s) % k)
        match download (ksOfArray ksa) sysCodec u pick with
        | .error e => showErr e
        | .ok out => hexOfBytes out
    | _, _, _, _, _ => "bad-op"
  | _ => "bad-op"

def main : IO Unit := mainLoop handle
