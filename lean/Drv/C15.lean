import Tahoe.Base.DrvUtil
import Tahoe.Uri.Show
/-! Driver for C15.
  `fs <deep> <hex>`        -> `<cap> | <to_string hex>`      uri.from_string(u, deep_immutable) and .to_string()
  `fsw <deep> <hex>`       -> same with the patterns exactly as written in the unrepaired uri.py
  `ts F|D …fields`         -> hex of to_string(), or `ASSERT`  (constructor + to_string)
  `b2a <hex>` / `a2b <hex>` -> hex                            base32.b2a / base32.a2b
  `dec <n>` / `int <hex>`   -> hex / n                        b'%d' % n / int(digits) -/
open Tahoe.Drv Tahoe.Uri

def showTs : Option Tahoe.Uri.Bytes → String
  | some b => hexOfBytes b
  | none => "ASSERT"

def handle : List String → String
  | ["fs", d, u] =>
    match parseBool d, bytesOfHex u with
    | some deep, some ub => let c := fromString deep ub; s!"{showCap c} | {showTs c.toString}"
    | _, _ => "bad-op"
  | ["fsw", d, u] =>      -- the unrepaired patterns (`specAsWritten`)
    match parseBool d, bytesOfHex u with
    | some deep, some ub => let c := fromStringAsWritten deep ub; s!"{showCap c} | {showTs c.toString}"
    | _, _ => "bad-op"
  | "ts" :: rest =>
    match parseCap rest with
    | some c => showTs c.toString
    | none => "bad-op"
  | ["b2a", h] => match bytesOfHex h with | some b => hexOfBytes (b2a b) | none => "bad-op"
  | ["a2b", h] => match bytesOfHex h with | some b => hexOfBytes (a2b b) | none => "bad-op"
  | ["dec", n] => match n.toNat? with | some v => hexOfBytes (natToDec v) | none => "bad-op"
  | ["int", h] => match bytesOfHex h with | some b => toString (decToNat b) | none => "bad-op"
  | _ => "bad-op"

def main : IO Unit := mainLoop handle
