import Tahoe.Base.DrvUtil
import Tahoe.Happiness.Placement
import Tahoe.Happiness.Selector
/-! Driver for C07 (immutable/happiness_upload.py: share_placement and helpers).

Encodings: a set / list of ids is `a,b,c` (`-` empty); a dict `k -> set` is `k:a,b;k:c` (`-` empty,
dict order); a graph is `row;row` with `.` for an empty row (`-` = `[]`); a mapping
`share -> peer | None` is `s>p,s>N` (`-` empty).  `cfg` is two bits `<resetShares><keepPeer>`:
`00` = repository code, `11` = repaired code.

Ops:
  place <peers> <readonly> <shares> <p2s>      → `asis=<placement> fixed=<placement>`
  placecfg <cfg> <peers> <readonly> <shares> <p2s> → placement
  smfg <cfg> <peers> <shares> <servermap>      → _servermap_flow_graph
  fn <peerIndices> <shareIndices>              → _flow_network
  cmg <graph> <shareIndices>                   → _compute_maximum_graph
  calc <cfg> <peers> <shares> <servermap>      → _calculate_mappings
  dist <mappings> <homeless> <p2s>             → _distribute_homeless_shares (mappings afterwards)
  spread <placement>                           → number of distinct servers (`distinctServers`)
  holds <p2s> <peer> <share>                   → `T`/`F`: `share in p2s[peer]` (`Holds`)
  told <total> <nsrv> <readonly> <held>         → the selector state the ground truth prescribes (`toldState`), as `S:…`
  rounds <total> <nsrv> <readonly> <held> round round …   → from `toldState`, the selector state and plan at every
        get_share_placements() of the allocation loop; a round is `p:k,p:k,…` (`.` = nobody asked) with answer kinds
        `o` ok, `n` no progress, `e` error, `t` timeout, `d` disconnected; output `peers|readonly|bad|plan` per plan, joined by `;`
  sel <cfg> <total> op op …                    → PeerSelector history: `a:P` add_peer, `s:P:N` add_peer_with_share,
        `r:P` mark_readonly_peer, `f:P` allocation failed or timed out (= demotion), `b:P` mark_bad_peer, `g` get_share_placements; one field per op joined by `;`
        (`-` None, `KeyError`, or the plan), then `S:<peers>|<readonly>|<bad>|<existing>` (state afterwards)
-/
open Tahoe.Drv Tahoe.Happiness

def parseIds (t : String) : Option (List Nat) :=
  if t == "-" then some [] else (t.splitOn ",").mapM String.toNat?

def showIds (l : List Nat) : String := if l.isEmpty then "-" else showNatList l

def parseEntry (t : String) : Option (Nat × List Nat) :=
  match t.splitOn ":" with
  | [k, v] => do
      let k ← k.toNat?
      let v ← if v.isEmpty then some [] else (v.splitOn ",").mapM String.toNat?
      pure (k, v)
  | _ => none

def parseSetMap (t : String) : Option SetMap :=
  if t == "-" then some [] else (t.splitOn ";").mapM parseEntry

def parseRow (t : String) : Option (List Nat) :=
  if t == "." then some [] else (t.splitOn ",").mapM String.toNat?

def parseGraph (t : String) : Option Graph :=
  if t == "-" then some [] else (t.splitOn ";").mapM parseRow

def showGraph (g : Graph) : String :=
  if g.isEmpty then "-" else ";".intercalate (g.map (fun r => if r.isEmpty then "." else showNatList r))

def parseCfg : String → Option Cfg
  | "00" => some ⟨false, false⟩
  | "01" => some ⟨false, true⟩
  | "10" => some ⟨true, false⟩
  | "11" => some ⟨true, true⟩
  | _ => none

def showMappings (m : List (Nat × Option Nat)) : String :=
  if m.isEmpty then "-" else
  ",".intercalate (m.map (fun e => match e.2 with
    | none => s!"{e.1}>N"
    | some p => s!"{e.1}>{p}"))

def parseMapping (t : String) : Option (Nat × Option Nat) :=
  match t.splitOn ">" with
  | [s, "N"] => do pure ((← s.toNat?), none)
  | [s, p] => do pure ((← s.toNat?), some (← p.toNat?))
  | _ => none

def parseMappings (t : String) : Option (List (Nat × Option Nat)) :=
  if t == "-" then some [] else (t.splitOn ",").mapM parseMapping

def showPlacement : Placement → String
  | .hang => "hang"
  | .ok m => if m.isEmpty then "-" else ",".intercalate (m.map (fun e => s!"{e.1}>{e.2}"))

def parseSelOp (t : String) : Option SelOp :=
  match t.splitOn ":" with
  | ["a", p] => do pure (.addPeer (← p.toNat?))
  | ["s", p, n] => do pure (.addPeerWithShare (← p.toNat?) (← n.toNat?))
  | ["r", p] => do pure (.markReadonly (← p.toNat?))
  | ["f", p] => do pure (SelOp.allocationFailed (← p.toNat?))
  | ["b", p] => do pure (.markBad (← p.toNat?))
  | ["g"] => some .getPlacements
  | _ => none

def showSetMap (m : SetMap) : String :=
  if m.isEmpty then "-" else ";".intercalate (m.map (fun e => s!"{e.1}:{showNatList e.2}"))

def showSelOut : SelOut → String
  | .none => "-"
  | .keyError => "KeyError"
  | .plan p => showPlacement p

def parseAnswer (t : String) : Option (Nat × Answer) :=
  match t.splitOn ":" with
  | [p, "o"] => do pure ((← p.toNat?), .ok)
  | [p, "n"] => do pure ((← p.toNat?), .noProgress)
  | [p, "e"] => do pure ((← p.toNat?), .error)
  | [p, "t"] => do pure ((← p.toNat?), .timeout)
  | [p, "d"] => do pure ((← p.toNat?), .disconnected)
  | _ => none

def parseRound (t : String) : Option (List (Nat × Answer)) :=
  if t == "." then some [] else (t.splitOn ",").mapM parseAnswer

def handle : List String → String
  | ["place", p, r, s, m] => match parseIds p, parseIds r, parseIds s, parseSetMap m with
    | some p, some r, some s, some m =>
      s!"asis={showPlacement (sharePlacement Cfg.asIs p r s m)} fixed={showPlacement (sharePlacement Cfg.fixed p r s m)}"
    | _, _, _, _ => "bad-op"
  | ["placecfg", c, p, r, s, m] => match parseCfg c, parseIds p, parseIds r, parseIds s, parseSetMap m with
    | some c, some p, some r, some s, some m => showPlacement (sharePlacement c p r s m)
    | _, _, _, _, _ => "bad-op"
  | ["smfg", c, p, s, m] => match parseCfg c, parseIds p, parseIds s, parseSetMap m with
    | some c, some p, some s, some m => showGraph (servermapFlowGraph c p s m)
    | _, _, _, _ => "bad-op"
  | ["fn", p, s] => match parseIds p, parseIds s with
    | some p, some s => showGraph (flowNetwork p s)
    | _, _ => "bad-op"
  | ["cmg", g, s] => match parseGraph g, parseIds s with
    | some g, some s => showMappings (computeMaximumGraph g s)
    | _, _ => "bad-op"
  | ["calc", c, p, s, m] => match parseCfg c, parseIds p, parseIds s, parseSetMap m with
    | some c, some p, some s, some m => showMappings (calculateMappings c p s m)
    | _, _, _, _ => "bad-op"
  | ["dist", mp, h, m] => match parseMappings mp, parseIds h, parseSetMap m with
    | some mp, some h, some m => showMappings (distributeHomeless mp h m)
    | _, _, _ => "bad-op"
  | ["spread", r] => match parseMappings r with
    | some m => match m.mapM (fun e => e.2.map (fun p => (e.1, p))) with
      | some res => toString (distinctServers res)
      | none => "bad-op"
    | none => "bad-op"
  | ["holds", m, p, s] => match parseSetMap m, p.toNat?, s.toNat? with
    | some m, some p, some s => if Holds m p s then "T" else "F"
    | _, _, _ => "bad-op"
  | ["told", total, nsrv, ro, held] => match total.toNat?, nsrv.toNat?, parseIds ro, parseSetMap held with
    | some total, some nsrv, some ro, some held =>
      let s := toldState total nsrv ro held
      s!"S:{showIds s.peers}|{showIds s.readonly}|{showIds s.bad}|{showSetMap s.existing}"
    | _, _, _, _ => "bad-op"
  | "rounds" :: total :: nsrv :: ro :: held :: rounds =>
    match total.toNat?, nsrv.toNat?, parseIds ro, parseSetMap held, rounds.mapM parseRound with
    | some total, some nsrv, some ro, some held, some rounds =>
      let s0 := toldState total nsrv ro held
      ";".intercalate ((s0.roundStates rounds).map (fun s =>
        s!"{showIds s.peers}|{showIds s.readonly}|{showIds s.bad}|{showPlacement (s.plan Cfg.fixed)}"))
    | _, _, _, _, _ => "bad-op"
  | "sel" :: c :: total :: ops => match parseCfg c, total.toNat?, ops.mapM parseSelOp with
    | some c, some total, some ops =>
      let s0 := SelState.init total
      let s := s0.after ops
      ";".intercalate ((s0.run c ops).map showSelOut ++
        [s!"S:{showIds s.peers}|{showIds s.readonly}|{showIds s.bad}|{showSetMap s.existing}"])
    | _, _, _ => "bad-op"
  | _ => "bad-op"

def main : IO Unit := mainLoop handle
