import Tahoe.Base.DrvUtil
import Tahoe.Storage.ImmDrv
/-! Driver for C22 (immutable share storage): one history per line, see Tahoe/Storage/ImmDrv.lean. -/
def main : IO Unit := Tahoe.Drv.mainLoop Tahoe.Storage.ImmDrv.handle
