import Tahoe.Base.DrvUtil
import Tahoe.Happiness.Flow
/-! Driver for C08 (util/happinessutil.py, flow code of immutable/happiness_upload.py).

Encodings: a dict `k -> list` is `k:a,b;k:;k:c` (`-` = empty dict, entries in dict order, values in
iteration order); a graph is `row;row;…` with `.` for an empty row (`-` = empty graph); an integer
matrix likewise; a predecessor table is `N,3,0,…`; a path is `u>v,u>v` (`F` = no path).

Ops:
  sbs <sharemap>              → shares_by_server (model order)
  merge <sharemap> <trackers> → merge_servers
  eff <existing> <trackers>   → the uploader's happiness test: servers_of_happiness(merge_servers(
                                 PeerSelector.get_sharemap_of_preexisting_shares(), use_trackers))
  fnf <servermap>             → _flow_network_for
  soh <sharemap>              → servers_of_happiness
  trace <servermap>           → every residual network / bfs table / path of the loop, then the value
  bfs <graph> <s>             → predecessor table
  aug <graph>                 → augmenting_path_for
  res <graph> <flow>          → residual graph `|` residual capacities
  mm <sharemap>               → brute-force maximum matching number of the relation (reference)
-/
open Tahoe.Drv Tahoe.Happiness

def parseEntry (t : String) : Option (Nat × List Nat) :=
  match t.splitOn ":" with
  | [k, v] => do
      let k ← k.toNat?
      let v ← if v.isEmpty then some [] else (v.splitOn ",").mapM String.toNat?
      pure (k, v)
  | _ => none

def parseSetMap (t : String) : Option SetMap :=
  if t == "-" then some [] else (t.splitOn ";").mapM parseEntry

def showSetMap (m : SetMap) : String :=
  if m.isEmpty then "-" else
  ";".intercalate (m.map (fun e => s!"{e.1}:{showNatList e.2}"))

def parseRow (t : String) : Option (List Nat) :=
  if t == "." then some [] else (t.splitOn ",").mapM String.toNat?

def parseGraph (t : String) : Option Graph :=
  if t == "-" then some [] else (t.splitOn ";").mapM parseRow

def showRow (r : List Nat) : String := if r.isEmpty then "." else showNatList r

def showGraph (g : Graph) : String :=
  if g.isEmpty then "-" else ";".intercalate (g.map showRow)

def parseIntRow (t : String) : Option (List Int) :=
  if t == "." then some [] else (t.splitOn ",").mapM String.toInt?

def parseMatrix (t : String) : Option Matrix :=
  if t == "-" then some [] else (t.splitOn ";").mapM parseIntRow

def showMatrix (m : Matrix) : String :=
  if m.isEmpty then "-" else
  ";".intercalate (m.map (fun r => if r.isEmpty then "." else ",".intercalate (r.map toString)))

def showPred (p : List (Option Nat)) : String :=
  if p.isEmpty then "-" else
  ",".intercalate (p.map (fun x => match x with | none => "N" | some v => toString v))

def showPath : Option (List (Nat × Nat)) → String
  | none => "F"
  | some p => if p.isEmpty then "-" else ",".intercalate (p.map (fun e => s!"{e.1}>{e.2}"))

/-- the loop of `servers_of_happiness`, recording what the real code computes on the way -/
def traceLoop (g : Graph) : Nat → FlowState → List String → FlowState × List String
  | 0, st, ev => (st, ev)
  | fuel + 1, st, ev =>
    let ev := ev ++ [s!"B:{showPred (bfs st.2.1 0)}", s!"A:{showPath (augmentingPathFor st.2.1)}"]
    match augmentingPathFor st.2.1 with
    | some path =>
      let ev := ev ++ [s!"B:{showPred (bfs st.2.1 0)}", s!"A:{showPath (some path)}"]
      let st' := augmentOuter g st path
      traceLoop g fuel st' (ev ++ [s!"R:{showGraph st'.2.1}"])
    | none => (st, ev)

def trace (servermap : SetMap) : String :=
  let g := flowNetworkFor servermap
  let st0 := flowInit g
  let r := traceLoop g g.length st0 [s!"G:{showGraph g}", s!"R:{showGraph st0.2.1}"]
  let v := flowValue r.1.1 servermap.length
  let chk := if v = sohOfServermap servermap then "" else "|trace-differs-from-model"
  "|".intercalate r.2 ++ s!"|V:{v}" ++ chk

def handle : List String → String
  | ["sbs", m] => match parseSetMap m with
    | some m => showSetMap (sharesByServer m)
    | none => "bad-op"
  | ["merge", m, t] => match parseSetMap m, parseSetMap t with
    | some m, some t => showSetMap (mergeServers m t)
    | _, _ => "bad-op"
  | ["eff", m, t] => match parseSetMap m, parseSetMap t with
    | some m, some t => toString (effectiveHappiness m t)
    | _, _ => "bad-op"
  | ["fnf", m] => match parseSetMap m with
    | some m => showGraph (flowNetworkFor m)
    | none => "bad-op"
  | ["soh", m] => match parseSetMap m with
    | some m => toString (serversOfHappiness m)
    | none => "bad-op"
  | ["trace", m] => match parseSetMap m with
    | some m => trace m
    | none => "bad-op"
  | ["bfs", g, s] => match parseGraph g, s.toNat? with
    | some g, some s => showPred (bfs g s)
    | _, _ => "bad-op"
  | ["aug", g] => match parseGraph g with
    | some g => showPath (augmentingPathFor g)
    | none => "bad-op"
  | ["res", g, f] => match parseGraph g, parseMatrix f with
    | some g, some f => let r := residualNetwork g f; showGraph r.1 ++ "|" ++ showMatrix r.2
    | _, _ => "bad-op"
  | ["mm", m] => match parseSetMap m with
    | some m => toString (maxMatchingBrute (rel m))
    | none => "bad-op"
  | _ => "bad-op"

def main : IO Unit := mainLoop handle
