import Tahoe.Base.DrvUtil
import Tahoe.Mutable.Serializer
import Tahoe.Mutable.Routing
/-! Driver for C13.
  `ser op…`  ops: q (request, asynchronous callable) | qo / qf (callable completes synchronously ok / failing)
             | f:<i>:o / f:<i>:f (inner Deferred of op i fires) | t (eventual-queue turn)
             | r:<i> (attempt of op i ends in UncoordinatedWriteError, next attempt begins) | u:<i> (…and the backoffer gives up)
     → `<log> | <waiting> | <content>`  with log tokens S<i> F<i><o|f> D<i><o|f> R<i>
  `route node <op>` → `serialized=<b> reenters=<b>`; `route dir <op>` → the node operations it is built on; `route names` → all ops of the tables
  `nm call…` calls: <I|M>:<cap>:<u|i|m>   → node object ids, comma separated -/
open Tahoe.Drv Tahoe.Serializer

def resChar : Res → String
  | .ok => "o"
  | .fail => "f"

def parseRes : String → Option Res
  | "o" => some .ok
  | "f" => some .fail
  | _ => none

def parseOp (t : String) : Option Op :=
  match t.splitOn ":" with
  | ["q"] => some (.req none)
  | ["qo"] => some (.req (some .ok))
  | ["qf"] => some (.req (some .fail))
  | ["f", i, r] => do pure (.fin (← i.toNat?) (← parseRes r))
  | ["t"] => some .turn
  | ["i", i] => do pure (.innerReq (← i.toNat?))   -- the body of op i requests another serialized op on its node and waits for it
  | ["r", i] => do pure (.retry (← i.toNat?))      -- current attempt of op i collides; next attempt begins
  | ["u", i] => do pure (.fin (← i.toNat?) .fail)  -- current attempt collides and the backoffer gives up: the op fails
  | _ => none

def showEv : Ev → String
  | .start i => s!"S{i}"
  | .finish i r => s!"F{i}{resChar r}"
  | .deliver i r => s!"D{i}{resChar r}"
  | .retry i => s!"R{i}"

def showSt (s : St) : String :=
  let log := " ".intercalate (s.core.log.map showEv)
  let w := match s.core.waiting with | some i => toString i | none => "-"
  let c := if s.core.content.isEmpty then "-" else showNatList s.core.content
  s!"{if log.isEmpty then "-" else log} | {w} | {c}"

def parseCall (t : String) : Option (Bool × String × Kind) :=
  match t.splitOn ":" with
  | [d, w, r, k] => do
    -- two-cap form: <I|M>:<writecap or ->:<readcap or ->:<kind>
    let d ← (if d == "I" then some true else if d == "M" then some false else none)
    let k ← (match k with | "u" => some Kind.unknown | "i" => some Kind.immutable | "m" => some Kind.mutable | _ => none)
    pure (d, bigcapOf (if w == "-" then "" else w) (if r == "-" then "" else r), k)
  | [d, cap, k] => do
    let d ← (if d == "I" then some true else if d == "M" then some false else none)
    let k ← (match k with | "u" => some Kind.unknown | "i" => some Kind.immutable | "m" => some Kind.mutable | _ => none)
    pure (d, cap, k)
  | _ => none

open Tahoe.Routing in
def nodeOpName : NodeOp → String
  | .downloadBestVersion => "download_best_version" | .overwrite => "overwrite" | .upload => "upload"
  | .modify => "modify" | .getServermap => "get_servermap"

open Tahoe.Routing in
def dirOpName : DirOp → String
  | .list => "list" | .hasChild => "has_child" | .get => "get" | .getChildAndMetadata => "get_child_and_metadata"
  | .getMetadataFor => "get_metadata_for" | .setMetadataFor => "set_metadata_for" | .setUri => "set_uri"
  | .setChildren => "set_children" | .setNode => "set_node" | .setNodes => "set_nodes" | .addFile => "add_file"
  | .delete => "delete" | .createSubdirectory => "create_subdirectory" | .moveChildWithin => "move_child_to"

def handle : List String → String
  | ["route", "node", name] =>
    match Tahoe.Routing.allNodeOps.find? (fun o => nodeOpName o == name) with
    | some o => s!"serialized={Tahoe.Routing.serialized o} reenters={Tahoe.Routing.bodyEnqueues o}"
    | none => "bad-op"
  | ["route", "dir", name] =>
    match Tahoe.Routing.allDirOps.find? (fun d => dirOpName d == name) with
    | some d => ",".intercalate ((Tahoe.Routing.dirOpCalls d).map nodeOpName)
    | none => "bad-op"
  | ["route", "names"] =>
    " ".intercalate (Tahoe.Routing.allNodeOps.map nodeOpName) ++ " | " ++ " ".intercalate (Tahoe.Routing.allDirOps.map dirOpName)
  | "ser" :: ops => match ops.mapM parseOp with
    | some l => showSt (runOps l)
    | none => "bad-op"
  | "nm" :: calls => match calls.mapM parseCall with
    | some l =>
      let (_, ids) := l.foldl (fun (acc : Maker × List Nat) c =>
        let (m', n) := createFromCap acc.1 c.1 c.2.1 c.2.2; (m', acc.2 ++ [n])) ({}, [])
      if ids.isEmpty then "-" else showNatList ids
    | none => "bad-op"
  | _ => "bad-op"

def main : IO Unit := mainLoop handle
