import Tahoe.Base.DrvUtil
import Tahoe.Base.Sha256
import Tahoe.Immutable.Convergence
import Tahoe.Immutable.Uploadable
/-! Driver for C05 (convergent keys, literal threshold).  The abstract hasher is instantiated with the
    executable SHA-256d of `Tahoe.Base.Sha256` (state = bytes fed so far).
    `tag K N SEGSIZE SECRET`                    → tag hex | `ValueError`
    `netstring HEX`                             → hex
    `key K N SEGSIZE SECRET CHUNKS`             → `KEYHEX;SIHEX` (CHUNKS = hex,hex,… results of successive read() calls; `-` = empty read)
    `cap CONV URANDOM K N MAXSEG PT CHUNKS`     → `LIT;DATAHEX;0` | `CHK;KEYHEX;K;N;SIZE;SIHEX;PUSHED` | `error`
                                                  (CONV = N for no convergence secret)
    `capon NSERVERS CONV URANDOM K N MAXSEG PT CHUNKS` → like `cap`, on a client that knows NSERVERS servers: adds the outcomes `NoServersError`
    `via KEY K N MAXSEG CHUNK DATA SIZES`       → `pos+len,…;LIT;DATAHEX;0` | `pos+len,…;CHK;KEYHEX;K;N;SIZE;PUSHED` | `…;error`
                                                  Uploader.upload on an IUploadable whose read() returns the bytes in pieces of
                                                  the cycling SIZES (`-` = one piece): the read(pos,len) calls of the CHK path, the result -/
open Tahoe.Drv Tahoe.Immutable Tahoe.Immutable.Convergence Tahoe.Base.Sha256
open Tahoe.Generated

def shaHasher : Hasher (List UInt8) := ⟨[], fun s b => s ++ b, fun s => sha256d s⟩

def siHash (key : List UInt8) : List UInt8 :=
  (sha256d (netstring Immutable.STORAGE_INDEX_TAG ++ key)).take Immutable.STORAGE_INDEX_LEN

def parseChunks (s : String) : Option (List (List UInt8)) :=
  if s == "." then some [] else (s.splitOn ",").mapM bytesOfHex

def handle : List String → String
  | ["tag", k, n, seg, secret] =>
    match k.toNat?, n.toNat?, seg.toNat?, bytesOfHex secret with
    | some k, some n, some seg, some secret =>
      match convergenceTag k n seg secret with
      | none => "ValueError"
      | some t => hexOfBytes t
    | _, _, _, _ => "bad-op"
  | ["netstring", h] =>
    match bytesOfHex h with
    | some b => hexOfBytes (netstring b)
    | none => "bad-op"
  | ["key", k, n, seg, secret, chunks] =>
    match k.toNat?, n.toNat?, seg.toNat?, bytesOfHex secret, parseChunks chunks with
    | some k, some n, some seg, some secret, some chunks =>
      match convergentKey shaHasher k n seg secret chunks with
      | none => "ValueError"
      | some key => hexOfBytes key ++ ";" ++ hexOfBytes (siHash key)
    | _, _, _, _, _ => "bad-op"
  | ["cap", conv, urandom, k, n, maxSeg, pt, chunks] =>
    let conv? : Option (Option (List UInt8)) := if conv == "N" then some none else (bytesOfHex conv).map some
    match conv?, bytesOfHex urandom, k.toNat?, n.toNat?, maxSeg.toNat?, bytesOfHex pt, parseChunks chunks with
    | some conv, some urandom, some k, some n, some maxSeg, some pt, some chunks =>
      match uploadCap shaHasher (fun _ _ _ _ _ => []) conv urandom k n maxSeg pt chunks with
      | none => "error"
      | some r =>
        match r.cap with
        | .lit d => s!"LIT;{hexOfBytes d};{r.sharesPushed}"
        | .chk key _ k n size => s!"CHK;{hexOfBytes key};{k};{n};{size};{hexOfBytes (siHash key)};{r.sharesPushed}"
    | _, _, _, _, _, _, _ => "bad-op"
  | ["capon", ns, conv, urandom, k, n, maxSeg, pt, chunks] =>
    let conv? : Option (Option (List UInt8)) := if conv == "N" then some none else (bytesOfHex conv).map some
    match ns.toNat?, conv?, bytesOfHex urandom, k.toNat?, n.toNat?, maxSeg.toNat?, bytesOfHex pt, parseChunks chunks with
    | some ns, some conv, some urandom, some k, some n, some maxSeg, some pt, some chunks =>
      match uploadCapOn shaHasher (fun _ _ _ _ _ => []) ns conv urandom k n maxSeg pt chunks with
      | .error => "error"
      | .noServers => "NoServersError"
      | .ok r =>
        match r.cap with
        | .lit d => s!"LIT;{hexOfBytes d};{r.sharesPushed}"
        | .chk key _ k n size => s!"CHK;{hexOfBytes key};{k};{n};{size};{hexOfBytes (siHash key)};{r.sharesPushed}"
    | _, _, _, _, _, _, _, _ => "bad-op"
  | ["via", key, k, n, maxSeg, chunk, data, sizes] =>
    match bytesOfHex key, k.toNat?, n.toNat?, maxSeg.toNat?, chunk.toNat?, bytesOfHex data, parseNatList sizes with
    | some key, some k, some n, some maxSeg, some chunk, some data, some sizes =>
      let r := Uploadable.uploadCapVia (fun _ _ _ _ _ => []) (Uploadable.chunkySource data sizes (fun _ => key)) k n maxSeg chunk
      let calls := if r.1.isEmpty then "-" else ",".intercalate (r.1.map (fun c => s!"{c.1}+{c.2}"))
      match r.2 with
      | none => calls ++ ";error"
      | some res =>
        match res.cap with
        | .lit d => s!"{calls};LIT;{hexOfBytes d};{res.sharesPushed}"
        | .chk key _ k n size => s!"{calls};CHK;{hexOfBytes key};{k};{n};{size};{res.sharesPushed}"
    | _, _, _, _, _, _, _ => "bad-op"
  | _ => "bad-op"

def main : IO Unit := mainLoop handle
