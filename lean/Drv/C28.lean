import Tahoe.Base.DrvUtil
import Tahoe.Storage.ImmDrv
/-! Driver for C28 (space reservations): same line protocol as C22, see Tahoe/Storage/ImmDrv.lean. -/
def main : IO Unit := Tahoe.Drv.mainLoop Tahoe.Storage.ImmDrv.handle
