import Tahoe.Base.DrvUtil
import Tahoe.Web.Authority
/-! Driver for C41.
    `serve F GRID CAP PATH k=v …`  — one web request on a model grid.
       F = 1 (table with the proposed repair) or 0 (code as it is)
       GRID = objects joined by `;`, each `K/ENTRIES` with K ∈ md id mf if and ENTRIES = `-` or
              `name.addr.rw` joined by `,` (rw ∈ 0 1)
       CAP = `addr.w` | `addr.r` | `addr.v`;  PATH = `-` or names joined by `,`
       k=v: m=put|post|delete  t=none|mkdir|mkdirwc|mkdirimm|upload|uri|del|unlink|rename|relink|setchildren|bad
            name=N to=N todir=CAP/PATH cap=CAP kids=ENTRIES repl=yes|no|only fmt=1 off=1
       output: `ok` or `err:<class>:<phase>` (phase t = raised during traversal, r = by the render method),
               for a refusal ` caps=` the cap strings its body shows (`addr.auth`,… or `-`), then ` grid=` objects as `K/ENTRIES/ver`
    `caps GRID CAP PATH json|info|html|uri|rouri` — cap strings shown by a renderer for the node the path
       resolves to; output `addr.auth` joined by `,` (in model order) or `none` if the path does not resolve.
    `unpack GRID ADDR W` — `_unpack_contents` of the stored entries of directory ADDR by a view that is writeable (W=1) or
       read-only (W=0); output `name:addr:w|r` per child.
    `cache GRID OPS` — a history of `NodeMaker.create_from_cap`: OPS joined by `,`, each `c.addr.auth` (look the cap up and
       hold the node) or `e` (every node is dropped and collected); output `w`/`r` per lookup (node writeable or not). -/
open Tahoe.Drv Tahoe.Web

def parseKind : String → Option Kind
  | "md" => some .mdir | "id" => some .idir | "mf" => some .mfile | "if" => some .ifile | _ => none

def showKind : Kind → String
  | .mdir => "md" | .idir => "id" | .mfile => "mf" | .ifile => "if"

def parseEntries (s : String) : Option (List (Nat × Link)) :=
  if s == "-" then some [] else
  (s.splitOn ",").mapM (fun e => match e.splitOn "." with
    | [n, a, rw] => do
        let b ← (if rw == "1" then some true else if rw == "0" then some false else none)
        pure ((← n.toNat?), (⟨(← a.toNat?), b⟩ : Link))
    | _ => none)

def showEntries (es : List (Nat × Link)) : String :=
  if es.isEmpty then "-" else
  ",".intercalate (es.map (fun e => s!"{e.1}.{e.2.addr}.{if e.2.rw then 1 else 0}"))

def parseGrid (s : String) : Option Grid :=
  (s.splitOn ";").mapM (fun o => match o.splitOn "/" with
    | [k, es] => do pure (⟨(← parseKind k), (← parseEntries es), 0⟩ : Obj)
    | _ => none)

def showGrid (g : Grid) : String :=
  ";".intercalate (g.map (fun o => s!"{showKind o.kind}/{showEntries o.entries}/{o.ver}"))

def parseAuth : String → Option Auth
  | "w" => some .write | "r" => some .read | "v" => some .verify | _ => none

def showAuth : Auth → String
  | .write => "w" | .read => "r" | .verify => "v"

def parseCap (s : String) : Option Cap :=
  match s.splitOn "." with
  | [a, au] => do pure ⟨(← a.toNat?), (← parseAuth au)⟩
  | _ => none

def parsePath (s : String) : Option (List Nat) := parseNatList s

def parseMeth : String → Option Meth
  | "put" => some .put | "post" => some .post | "delete" => some .delete | _ => none

def parseT : String → Option T
  | "none" => some .none | "mkdir" => some .mkdir | "mkdirwc" => some .mkdirWithChildren
  | "mkdirimm" => some .mkdirImmutable | "upload" => some .upload | "uri" => some .uri
  | "del" => some .del | "unlink" => some .unlink | "rename" => some .rename | "relink" => some .relink
  | "setchildren" => some .setChildren | "bad" => some .bad | _ => none

def parseRepl : String → Option Repl
  | "yes" => some .yes | "no" => some .no | "only" => some .onlyFiles | _ => none

def applyKV (r : Req) (tok : String) : Option Req :=
  match tok.splitOn "=" with
  | ["m", v] => do pure { r with meth := (← parseMeth v) }
  | ["t", v] => do pure { r with t := (← parseT v) }
  | ["name", v] => do pure { r with name := some (← v.toNat?) }
  | ["to", v] => do pure { r with toName := some (← v.toNat?) }
  | ["todir", v] => match v.splitOn "/" with
      | [c, p] => do pure { r with toDir := some ((← parseCap c), (← parsePath p)) }
      | _ => none
  | ["cap", v] => do pure { r with cap := some (← parseCap v) }
  | ["kids", v] => do pure { r with kids := (← parseEntries v) }
  | ["repl", v] => do pure { r with repl := (← parseRepl v) }
  | ["fmt", "1"] => some { r with mutableFmt := true }
  | ["off", "1"] => some { r with offset := true }
  | _ => none

def parseReq (toks : List String) : Option Req :=
  toks.foldlM applyKV ({ meth := .put, t := .none } : Req)

def showErr : Err → String
  | .notWriteable => "notWriteable" | .assertion => "assertion" | .attributeError => "attributeError"
  | .existingChild => "existingChild" | .noSuchChild => "noSuchChild" | .webError => "webError"
  | .conflict => "conflict" | .badRequest => "badRequest" | .notAllowed => "notAllowed"
  | .notFound => "notFound" | .mustBeDeepImmutable => "mustBeDeepImmutable"

def showCaps (cs : List Cap) : String :=
  if cs.isEmpty then "-" else ",".intercalate (cs.map (fun c => s!"{c.addr}.{showAuth c.auth}"))

/-- `serve`, keeping the phase in which an error arose (same two steps as `Tahoe.Web.serve`) -/
def serveShow (fixed : Bool) (g : Grid) (c : Cap) (path : List Nat) (r : Req) : String :=
  match traverse g (rootHandler g c) r (path.getLast?.getD 0) path with
  | (g1, .err e) => s!"err:{showErr e}:t caps={showCaps (refusedBodyCaps c r e)} grid={showGrid g1}"
  | (g1, .ok hd) =>
    match render fixed g1 hd r with
    | (g2, .ok _) => s!"ok grid={showGrid g2}"
    | (g2, .err e) => s!"err:{showErr e}:r caps={showCaps (refusedBodyCaps c r e)} grid={showGrid g2}"

def handle : List String → String
  | "serve" :: f :: gs :: cs :: ps :: kvs =>
    match (if f == "1" then some true else if f == "0" then some false else none),
          parseGrid gs, parseCap cs, parsePath ps, parseReq kvs with
    | some fixed, some g, some c, some p, some r => serveShow fixed g c p r
    | _, _, _, _, _ => "bad-op"
  | ["caps", gs, cs, ps, kind] =>
    match parseGrid gs, parseCap cs, parsePath ps with
    | some g, some c, some p =>
      if c.auth == .verify then "none" else
      match resolve g (capHandle g c) p with
      | none => "none"
      | some h =>
        match kind with
        | "json" => showCaps (renderJson g h)
        | "info" => showCaps (renderInfo g h)
        | "html" => showCaps (renderHtml g h)
        | "uri" => showCaps (renderUri h)
        | "rouri" => showCaps (renderReadonlyUri h)
        | _ => "bad-op"
    | _, _, _ => "bad-op"
  | ["unpack", gs, a, w] =>
    match parseGrid gs, a.toNat?, (if w == "1" then some true else if w == "0" then some false else none) with
    | some g, some addr, some writeable =>
      let kids := unpackContents g writeable (storedEntries g addr)
      if kids.isEmpty then "-" else ",".intercalate (kids.map (fun x => s!"{x.1}:{x.2.addr}:{if x.2.w then "w" else "r"}"))
    | _, _, _ => "bad-op"
  | ["cache", gs, ops] =>
    match parseGrid gs with
    | none => "bad-op"
    | some g =>
      let parsed : Option (List CacheOp) := (ops.splitOn ",").mapM (fun o =>
        if o == "e" then some (CacheOp.collect (fun _ => false))
        else match o.splitOn "." with
          | ["c", a, au] => do pure (CacheOp.create false ⟨(← a.toNat?), (← parseAuth au)⟩)
          | _ => none)
      match parsed with
      | none => "bad-op"
      | some l => ",".intercalate ((runCache g [] l).map (fun h => if h.w then "w" else "r"))
  | _ => "bad-op"

def main : IO Unit := mainLoop handle
