import Tahoe.Base.DrvUtil
import Tahoe.Storage.Crawler
/-! Driver for C27: one schedule per line.
    `crawl <np> <event>…` with event =
      `s/<oracle>/<listing>`      a complete slice
      `k<K>/<oracle>/<listing>`   a slice killed after K completed process_bucket calls
      `r`                         process lost between slices, restarted from the state file
      `g`                         orderly stopService() between slices, then restarted
      `w<P>/<oracle>/<listing>`   a complete slice whose final save_state is killed at point P, then restarted
      `x<P>`                      stopService() whose save_state is killed at point P, then restarted
                                  P = t (after the truncating open) h (half written) w (written, not renamed) r (renamed)
    The optional token `a0` / `a1` after <np> selects the in-place / atomic (tmp+rename) state write (default a1).
    oracle = `-` or the comma-separated indices of the time checks that report "slice exceeded";
    listing = `-` or `p:b.b.b,p:b.b` (prefix index : bucket ranks in listdir order).
    Runs the process machine (`stepProc`: in-memory crawler + state file).
    Output per event: `<log>/<file: cur>/<lcf>/<next>/<lcb>/m<memory: cur>/<lcf>/<next>/<lcb>` joined by `;`,
    log = `c.p.b,…` or `-`; the file fields are what `load_state` would make of the file. -/
open Tahoe.Drv Tahoe.Storage.Crawler

def parseOracle (t : String) : Option (List Bool) := do
  let idx ← parseNatList t
  let n := idx.foldl (fun m x => max m (x + 1)) 0
  pure ((List.range n).map (fun i => idx.contains i))

def parseListing (t : String) : Option (Nat → List Nat) :=
  if t == "-" then some (fun _ => []) else do
    let pairs ← (t.splitOn ",").mapM (fun e => match e.splitOn ":" with
      | [p, bs] => do
          let pi ← p.toNat?
          let l ← (if bs == "" then some [] else (bs.splitOn ".").mapM String.toNat?)
          pure (pi, l)
      | _ => none)
    pure (fun i => match pairs.find? (fun q => q.1 == i) with | some q => q.2 | none => [])

def parsePoint (t : String) : Option SavePoint :=
  if t == "t" then some .truncated else if t == "h" then some .halfWritten
  else if t == "w" then some .written else if t == "r" then some .renamed else none

def parseEvent (t : String) : Option PEventA :=
  match t.splitOn "/" with
  | ["r"] => some (.ev .restart)
  | ["g"] => some (.ev .stop)
  | ["s", o, l] => do pure (.ev (.slice (← parseListing l) (← parseOracle o)))
  | [x] => if x.startsWith "x" then do pure (.stopKill (← parsePoint (x.drop 1).toString)) else none
  | [k, o, l] =>
    if k.startsWith "k" then do
      pure (.ev (.killed (← parseListing l) (← parseOracle o) (← (k.drop 1).toString.toNat?)))
    else if k.startsWith "w" then do
      pure (.saveKill (← parseListing l) (← parseOracle o) (← parsePoint (k.drop 1).toString))
    else none
  | _ => none

def showOpt : Option Nat → String
  | none => "N"
  | some n => toString n

def showLog (l : List Entry) : String :=
  if l.isEmpty then "-" else ",".intercalate (l.map (fun e => s!"{e.cycle}.{e.pfx}.{e.bucket}"))

def showP (p : Persist) : String := s!"{showOpt p.cur}/{showOpt p.lcf}/{p.next}/{showOpt p.lcb}"

def runShow (atomic : Bool) (np : Nat) : Proc → List PEventA → List String → List String
  | _, [], acc => acc.reverse
  | P, ev :: evs, acc =>
    let r := stepProcA atomic np P ev
    runShow atomic np r.1 evs (s!"{showLog r.2}/{showP (loadFile r.1.file).p}/m{showP r.1.mem.p}" :: acc)

def handle : List String → String
  | "crawl" :: np :: evs =>
    match (do
      let n ← np.toNat?
      let (atomic, evs') := match evs with
        | "a0" :: rest => (false, rest)
        | "a1" :: rest => (true, rest)
        | _ => (true, evs)
      let es ← evs'.mapM parseEvent
      pure (";".intercalate (runShow atomic n procInit es []))) with
    | some out => out
    | none => "bad-op"
  | _ => "bad-op"

def main : IO Unit := mainLoop handle
