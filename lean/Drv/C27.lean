import Tahoe.Base.DrvUtil
import Tahoe.Storage.Crawler
/-! Driver for C27: one schedule per line.
    `crawl <np> <event>…` with event =
      `s/<oracle>/<listing>`      a complete slice
      `k<K>/<oracle>/<listing>`   a slice killed after K completed process_bucket calls
      `r`                         restart between slices
    oracle = `-` or the comma-separated indices of the time checks that report "slice exceeded";
    listing = `-` or `p:b.b.b,p:b.b` (prefix index : bucket ranks in listdir order).
    Output per event: `<log>/<cur>/<lcf>/<next>/<lcb>` joined by `;`, log = `c.p.b,…` or `-`. -/
open Tahoe.Drv Tahoe.Storage.Crawler

def parseOracle (t : String) : Option (List Bool) := do
  let idx ← parseNatList t
  let n := idx.foldl (fun m x => max m (x + 1)) 0
  pure ((List.range n).map (fun i => idx.contains i))

def parseListing (t : String) : Option (Nat → List Nat) :=
  if t == "-" then some (fun _ => []) else do
    let pairs ← (t.splitOn ",").mapM (fun e => match e.splitOn ":" with
      | [p, bs] => do
          let pi ← p.toNat?
          let l ← (if bs == "" then some [] else (bs.splitOn ".").mapM String.toNat?)
          pure (pi, l)
      | _ => none)
    pure (fun i => match pairs.find? (fun q => q.1 == i) with | some q => q.2 | none => [])

def parseEvent (t : String) : Option Event :=
  match t.splitOn "/" with
  | ["r"] => some .restart
  | ["s", o, l] => do pure (.slice (← parseListing l) (← parseOracle o))
  | [k, o, l] =>
    if k.startsWith "k" then do
      pure (.killed (← parseListing l) (← parseOracle o) (← (k.drop 1).toString.toNat?))
    else none
  | _ => none

def showOpt : Option Nat → String
  | none => "N"
  | some n => toString n

def showLog (l : List Entry) : String :=
  if l.isEmpty then "-" else ",".intercalate (l.map (fun e => s!"{e.cycle}.{e.pfx}.{e.bucket}"))

def runShow (np : Nat) : St → List Event → List String → List String
  | _, [], acc => acc.reverse
  | s, ev :: evs, acc =>
    let r := step np s ev
    runShow np r.1 evs (s!"{showLog r.2}/{showOpt r.1.p.cur}/{showOpt r.1.p.lcf}/{r.1.p.next}/{showOpt r.1.p.lcb}" :: acc)

def handle : List String → String
  | "crawl" :: np :: evs =>
    match (do
      let n ← np.toNat?
      let es ← evs.mapM parseEvent
      pure (";".intercalate (runShow n init es []))) with
    | some out => out
    | none => "bad-op"
  | _ => "bad-op"

def main : IO Unit := mainLoop handle
