import Tahoe.Base.DrvUtil
import Tahoe.Identity.Model
/-! Driver for C43.  One line = one ordered pair of Python objects:

      pair <obj> <obj>

    obj ::= uri:<id>:<CapClassName>:<hex of to_string()>       instance of a `_BaseURI` subclass
          | uuri:<id>:<hex|N>                                  `UnknownURI` (`N` = `_uri is None`)
          | imm:<id>:<CapClassName>:<hex>  | lit:… | mut:… | dir:…   node classes with the class and string of their cap
          | unk:<id>:<hex|N>:<hex|N>                           `UnknownNode` (rw_uri, ro_uri)
          | other:<id>

    The string of a known cap must start with the prefix of its class (otherwise `bad-op`).
    Output: `eq=<T|F> ne=<T|F> meq=<r>,<r> mne=<r>,<r> hash=<E|D|U..> wf=<T|F>,<T|F>` where `meq`/`mne` are
    `type(a).__eq__(a,b)`, `type(b).__eq__(b,a)` (resp. `__ne__`) as T/F/NI, and `hash` says whether the two
    (symbolic) hash values are equal (E), different (D), or which operand is unhashable (Ua, Ub, Uab). -/
open Tahoe.Drv Tahoe.Identity

def kindOfName (n : String) : Option UriKind := UriKind.all.find? (fun k => k.className == n)

def optBytes (t : String) : Option (Option Tahoe.Identity.Bytes) :=
  if t == "N" then some none else (bytesOfHex t).map some

def parseUri (cls hex : String) : Option Uri := do
  let k ← kindOfName cls
  let s ← bytesOfHex hex
  if k.pre.isPrefixOf s then pure ⟨k, s.drop k.pre.length⟩ else none

def parseObj (t : String) : Option Obj :=
  match t.splitOn ":" with
  | ["uri", i, c, h] => do pure (.uri (← i.toNat?) (← parseUri c h))
  | ["uuri", i, s] => do pure (.unknownUri (← i.toNat?) (← optBytes s))
  | ["imm", i, c, h] => do pure (.immNode (← i.toNat?) (← parseUri c h))
  | ["lit", i, c, h] => do pure (.litNode (← i.toNat?) (← parseUri c h))
  | ["mut", i, c, h] => do pure (.mutNode (← i.toNat?) (← parseUri c h))
  | ["dir", i, c, h] => do pure (.dirNode (← i.toNat?) (← parseUri c h))
  | ["unk", i, rw, ro] => do pure (.unknownNode (← i.toNat?) (← optBytes rw) (← optBytes ro))
  | ["other", i] => do pure (.other (← i.toNat?))
  | _ => none

def showB (b : Bool) : String := if b then "T" else "F"
def showR : R → String
  | .t => "T" | .f => "F" | .ni => "NI"

def showHash (a b : Option HashVal) : String :=
  match a, b with
  | some x, some y => if x == y then "E" else "D"
  | none, some _ => "Ua"
  | some _, none => "Ub"
  | none, none => "Uab"

def handle : List String → String
  | ["pair", ta, tb] =>
    match parseObj ta, parseObj tb with
    | some a, some b =>
      let v := Variant.fixed
      s!"eq={showB (pyEq v a b)} ne={showB (pyNe v a b)} meq={showR (eqMethod v a b)},{showR (eqMethod v b a)} " ++
      s!"mne={showR (neMethod v a b)},{showR (neMethod v b a)} hash={showHash (hashMethod v a) (hashMethod v b)} " ++
      s!"wf={showB (decide (WF a))},{showB (decide (WF b))}"
    | _, _ => "bad-op"
  | _ => "bad-op"

def main : IO Unit := mainLoop handle
