import Tahoe.Base.DrvUtil
import Tahoe.Http.DrvText
import Tahoe.Http.Client
import Tahoe.Http.Direct
/-! Driver for C31 (HTTP and direct storage access agree).

  hist <op> <op> …    client-level operations through the modelled HTTP client + server; prints one result per
                      op, then `||` and the final state.
    c:<si>:<n,n|->:<size>:<upload>:<renew>:<cancel>     create            → created:<have>/<alloc>
    w:<si>:<n>:<upload>:<offset>:<hex>                  write_share_chunk → progress:<T|F>:<b-e,…|->
    a:<si>:<n>:<upload>                                 abort_upload      → done
    r:<si>:<n>:<off>:<len>  /  m:<si>:<n>:<off>:<len>   read_share_chunk (immutable / mutable) → data:<hex>
    l:<si>  /  k:<si>                                   list_shares (immutable / mutable) → shares:<n,…>
    e:<si>:<renew>:<cancel>                             add_or_renew_lease → done
    q:<si>:<enabler>:<renew>:<cancel>:<rtw>             read_test_write_chunks → rtw:<T|F>:<reads>
                                                        (<rtw> as in DrvText, with `:` inside it not allowed)
    errors: err:<code> (ClientException) | clienterror (ValueError/AssertionError before anything is sent)
  dhist <op> …                     the same operations on the direct path (`directStep`): results in the same syntax
  hhist <op> …                     the HTTP path behind the gate (`handledStep`): must print what `hist` prints
  read <hex data> <off> <len>      → `httpRead` on a share holding <data>: data:<hex> | err:<code> | clienterror
  readmissing <off> <len>          → `httpReadOpt` on a missing share
  zeromode                         → the generated zero-length read variant: raise | empty | probe
  range <units> <ranges|N> <hex>   → `readRange` decision for a parsed Range header on a share: <status>[:<start>-<stop>:<hex>]
  rtwrt <rtw>                      → `decRtw (encRtw a)` printed back in the same syntax | invalid
-/
open Tahoe.Drv Tahoe.Http Tahoe.Http.Text

def parseOp (tok : String) : Option Op :=
  match tok.splitOn ":" with
  | ["c", si, ns, size, u, r, c] => do
    pure (.create si (← parseNats ns) (← size.toNat?) (← bytesOfHex u) (← bytesOfHex r) (← bytesOfHex c))
  | ["w", si, n, u, off, d] => do pure (.write si (← n.toNat?) (← bytesOfHex u) (← off.toNat?) (← bytesOfHex d))
  | ["a", si, n, u] => do pure (.abort si (← n.toNat?) (← bytesOfHex u))
  | ["r", si, n, off, len] => do pure (.read si (← n.toNat?) (← off.toNat?) (← len.toNat?))
  | ["m", si, n, off, len] => do pure (.mread si (← n.toNat?) (← off.toNat?) (← len.toNat?))
  | ["l", si] => some (.list si)
  | ["k", si] => some (.mlist si)
  | ["e", si, r, c] => do pure (.lease si (← bytesOfHex r) (← bytesOfHex c))
  | ["q", si, we, r, c, a] => do pure (.rtw si (← bytesOfHex we) (← bytesOfHex r) (← bytesOfHex c) (← parseRtw a))
  | _ => none

def showRes : Res → String
  | .created h a => s!"created:{showNats h}/{showNats a}"
  | .progress f q => s!"progress:{if f then "T" else "F"}:{showPairs q}"
  | .done => "done"
  | .data b => "data:" ++ hex b
  | .shares l => "shares:" ++ showNats l
  | .rtw r => s!"rtw:{if r.success then "T" else "F"}:{showReads r.reads}"
  | .httpError c => s!"err:{c}"
  | .clientError => "clienterror"

def swissnum : Tahoe.Http.Bytes := [115, 119]

/-- the twin servers of the C31 harness both have the all-zero nodeid -/
def zeroNode : State := { myNodeid := List.replicate 20 0 }

def runOps (st : State) (acc : List String) : List String → Option (List String × State)
  | [] => some (acc.reverse, st)
  | tok :: rest =>
    match parseOp tok with
    | none => none
    | some op =>
      let r := clientStep swissnum st op
      runOps r.1 (showRes r.2 :: acc) rest

def runWith (f : State → Op → State × Res) (st : State) (acc : List String) : List String → Option (List String × State)
  | [] => some (acc.reverse, st)
  | tok :: rest =>
    match parseOp tok with
    | none => none
    | some op =>
      let r := f st op
      runWith f r.1 (showRes r.2 :: acc) rest

def showClientRead : ClientRead → String
  | .data b => "data:" ++ hex b
  | .httpError c => s!"err:{c}"
  | .valueError => "clienterror"

def showReadResp : ReadResp → String
  | .ok200 d => "200:" ++ hex d
  | .partial206 a b d => s!"206:{a}-{b}:{hex d}"
  | .noContent204 => "204"
  | .rangeNotSatisfiable416 => "416"
  | .serverError500 => "500"

def showRtwArgs (a : RtwArgs) : String :=
  let shares := a.tw.map fun p =>
    let t := if p.2.tests.isEmpty then "-" else ",".intercalate (p.2.tests.map fun x => s!"{x.offset}+{x.size}+{hex x.specimen}")
    let w := if p.2.writes.isEmpty then "-" else ",".intercalate (p.2.writes.map fun x => s!"{x.1}+{hex x.2}")
    let l := match p.2.newLength with
      | none => "N"
      | some n => toString n
    s!"{p.1}/{t}/{w}/{l}"
  let rv := if a.rv.isEmpty then "-" else ",".intercalate (a.rv.map fun r => s!"{r.1}+{r.2}")
  (if shares.isEmpty then "-" else ";".intercalate shares) ++ "@" ++ rv

def handle : List String → String
  | "hist" :: ops => match runOps zeroNode [] ops with
    | none => "bad-op"
    | some (outs, st) => " ".intercalate outs ++ " || " ++ showState st
  | "dhist" :: ops => match runWith directStep zeroNode [] ops with
    | none => "bad-op"
    | some (outs, st) => " ".intercalate outs ++ " || " ++ showState st
  | "hhist" :: ops => match runWith handledStep zeroNode [] ops with
    | none => "bad-op"
    | some (outs, st) => " ".intercalate outs ++ " || " ++ showState st
  | ["read", d, off, len] =>
    match bytesOfHex d, off.toNat?, len.toNat? with
    | some data, some o, some l => showClientRead (httpRead zeroRead data o l)
    | _, _, _ => "bad-op"
  | ["readmissing", off, len] =>
    match off.toNat?, len.toNat? with
    | some o, some l => showClientRead (httpReadOpt zeroRead none o l)
    | _, _ => "bad-op"
  | ["zeromode"] => Tahoe.Generated.Http.zeroLengthRead
  | ["range", units, rs, d] =>
    match bytesOfHex d with
    | none => "bad-op"
    | some data =>
      if units == "N" then showReadResp (readRange (some none) data)
      else match parseRangeHdr units rs with
        | none => "bad-op"
        | some h => showReadResp (readRange (some (some h)) data)
  | ["rtwrt", a] =>
    match parseRtw a with
    | none => "bad-op"
    | some args => match decRtw (encRtw args) with
      | none => "invalid"
      | some b => showRtwArgs b
  | _ => "bad-op"

def main : IO Unit := mainLoop handle
