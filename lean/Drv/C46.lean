import Tahoe.Base.DrvUtil
import Tahoe.Immutable.FetchShow
/-! Driver for C46 (DownloadNode segment queue over the SegmentFetcher model).
    `node MODE K NUMSEGS BADSEGS ev ev …`  MODE ∈ fixed|unfixed, BADSEGS = comma list of segment
    numbers whose decode / ciphertext-hash check fails (`-` = none); ev ∈
      g:SEGNUM:REQ      get_segment(SEGNUM) (REQ names the request)
      c:REQ             cancel of that request
      a:SHARES          got_shares (share syntax of the C03 driver)
      n                 no_more_shares
      u                 UEB validated (num_segments authoritative)
      s:GEN:ID:ST       observer of fetcher GEN fires for share ID
      l:GEN             a queued loop of fetcher GEN runs
    Output after every event:
      `calls|requests|active|retired|fetcher-digest`
    calls = GEN:call,… made during the event; requests = SEGNUM.REQ,…; active = GEN.SEGNUM.RUNNING or -;
    retired = REQ=ok|REQ=NotEnoughShares|REQ=NoShares|REQ=BadSegmentNumber|REQ=decode-failed (cumulative);
    fetcher-digest as in the C03 driver without its calls field, `-` if there is no active fetcher. -/
open Tahoe.Drv Tahoe.Fetch DrvFetch

def parseNEv (reg : List Share) (t : String) : Option NEv :=
  match t.splitOn ":" with
  | ["g", a, b] => do pure (.getSegment (← a.toNat?) (← b.toNat?))
  | ["c", a] => do pure (.cancel (← a.toNat?))
  | ["a", l] => do pure (.gotShares (← parseShares l))
  | ["n"] => some .noMoreShares
  | ["u"] => some .uebKnown
  | ["s", g, i, st] => do
      let i ← i.toNat?
      let sh ← reg.find? (·.id == i)
      pure (.share (← g.toNat?) sh (← parseSt st))
  | ["l", g] => do pure (.loop (← g.toNat?))
  | _ => none

def showOutcome : Outcome → String
  | .ok => "ok"
  | .err e => showErr e
  | .decodeErr => "decode-failed"

def nodeDigest (n : Node) : String :=
  let calls := if n.log.isEmpty then "-" else ",".intercalate (n.log.map (fun p => s!"{p.1}:{showOut p.2}"))
  let reqs := if n.requests.isEmpty then "-" else ",".intercalate (n.requests.map (fun r => s!"{r.1}.{r.2}"))
  let act := match n.active with
    | none => "-"
    | some a => s!"{a.gen}.{a.segnum}.{b2s a.f.running}"
  let ret := if n.retired.isEmpty then "-" else ",".intercalate (n.retired.map (fun r => s!"{r.1}={showOutcome r.2}"))
  let fd := match n.active with
    | none => "-"
    | some a => digest [] a.f
  "|".intercalate [calls, reqs, act, ret, fd]

def runNEvs (n : Node) (reg : List Share) (acc : List String) : List String → Option (List String)
  | [] => some acc.reverse
  | t :: rest =>
    match parseNEv reg t with
    | none => none
    | some e =>
      let n' := nstep { n with log := [] } e
      let reg' := match e with
        | .gotShares l => reg ++ l
        | _ => reg
      runNEvs n' reg' (nodeDigest n' :: acc) rest

def handle : List String → String
  | "node" :: mode :: k :: ns :: bad :: evs =>
    match (if mode == "fixed" then some true else if mode == "unfixed" then some false else none),
          k.toNat?, ns.toNat?, parseNatList bad with
    | some fx, some k, some ns, some bad =>
      match runNEvs { fixed := fx, k := k, numSegs := ns, badSegs := bad } [] [] evs with
      | some outs => if outs.isEmpty then "-" else ";".intercalate outs
      | none => "bad-op"
    | _, _, _, _ => "bad-op"
  | _ => "bad-op"

def main : IO Unit := mainLoop handle
