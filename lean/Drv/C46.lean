import Tahoe.Base.DrvUtil
import Tahoe.Immutable.FetchShow
import Tahoe.Immutable.Segmentation
import Tahoe.Immutable.SysFinder
/-! Driver for C46 (DownloadNode segment queue over the SegmentFetcher model).
    `node MODE K NUMSEGS BADSEGS ev ev …`  MODE ∈ fixed|unfixed, BADSEGS = comma list of segment
    numbers whose decode / ciphertext-hash check fails (`-` = none); ev ∈
      g:SEGNUM:REQ      get_segment(SEGNUM) (REQ names the request)
      c:REQ             cancel of that request
      a:SHARES          got_shares (share syntax of the C03 driver)
      n                 no_more_shares
      u                 UEB validated (num_segments authoritative)
      s:GEN:ID:ST       observer of fetcher GEN fires for share ID
      l:GEN             a queued loop of fetcher GEN runs
    Output after every event:
      `calls|requests|active|retired|fetcher-digest`
    calls = GEN:call,… made during the event; requests = SEGNUM.REQ,…; active = GEN.SEGNUM.RUNNING or -;
    retired = REQ=ok|REQ=NotEnoughShares|REQ=NoShares|REQ=BadSegmentNumber|REQ=decode-failed (cumulative);
    fetcher-digest as in the C03 driver without its calls field, `-` if there is no active fetcher. -/
open Tahoe.Drv Tahoe.Fetch DrvFetch

def parseNEv (reg : List Share) (t : String) : Option NEv :=
  match t.splitOn ":" with
  | ["g", a, b] => do pure (.getSegment (← a.toNat?) (← b.toNat?))
  | ["c", a] => do pure (.cancel (← a.toNat?))
  | ["a", l] => do pure (.gotShares (← parseShares l))
  | ["n"] => some .noMoreShares
  | ["u"] => some .uebKnown
  | ["s", g, i, st] => do
      let i ← i.toNat?
      let sh ← reg.find? (·.id == i)
      pure (.share (← g.toNat?) sh (← parseSt st))
  | ["l", g] => do pure (.loop (← g.toNat?))
  | _ => none

def showOutcome : Outcome → String
  | .ok => "ok"
  | .err e => showErr e
  | .decodeErr => "decode-failed"

def nodeDigest (n : Node) : String :=
  let calls := if n.log.isEmpty then "-" else ",".intercalate (n.log.map (fun p => s!"{p.1}:{showOut p.2}"))
  let reqs := if n.requests.isEmpty then "-" else ",".intercalate (n.requests.map (fun r => s!"{r.1}.{r.2}"))
  let act := match n.active with
    | none => "-"
    | some a => s!"{a.gen}.{a.segnum}.{b2s a.f.running}"
  let ret := if n.retired.isEmpty then "-" else ",".intercalate (n.retired.map (fun r => s!"{r.1}={showOutcome r.2}"))
  let fd := match n.active with
    | none => "-"
    | some a => digest [] a.f
  "|".intercalate [calls, reqs, act, ret, fd]

def runNEvs (n : Node) (reg : List Share) (acc : List String) : List String → Option (List String)
  | [] => some acc.reverse
  | t :: rest =>
    match parseNEv reg t with
    | none => none
    | some e =>
      let n' := nstep { n with log := [] } e
      let reg' := match e with
        | .gotShares l => reg ++ l
        | _ => reg
      runNEvs n' reg' (nodeDigest n' :: acc) rest


/-! `seg SEGSIZE GUESS OFFSET SIZE ev …` — one Segmentation (a `read(offset, size)`); ev ∈
      S:K            start()                       (K ∈ 0|1: node.segment_size known at that moment)
      g:ST:LEN:P:K   the get_segment Deferred fires with (ST, LEN bytes); P=1: the consumer pauses inside write()
      f:E:K          it errbacks; E ∈ B (BadSegmentNumberError) | O (anything else)
      x | p | r      stopProducing | pauseProducing | resumeProducing
      t:K            the queued _maybe_fetch_next turn runs
    Output after every event: `calls|offset|size|alive|hungry|active|turns|result`. -/
def showSegErr : SegErr → String
  | .wrongSegment => "WrongSegment"
  | .badSegnum => "BadSegmentNumber"
  | .stopped => "DownloadStopped"
  | .assertion => "Assertion"
  | .other _ => "other"

def showSegOut : SegOut → String
  | .getSegment n => s!"get={n}"
  | .cancel => "cancel"
  | .write st len => s!"write={st}+{len}"
  | .done => "done"
  | .errback e => "errback=" ++ showSegErr e

def parseBool : String → Option Bool
  | "0" => some false
  | "1" => some true
  | _ => none

def parseSEv (t : String) : Option (SEv × Bool) :=
  match t.splitOn ":" with
  | ["S", k] => do pure (.start, (← parseBool k))
  | ["g", a, b, p, k] => do pure (.segment (← a.toNat?) (← b.toNat?) (← parseBool p), (← parseBool k))
  | ["f", "B", k] => do pure (.failed .badSegnum, (← parseBool k))
  | ["f", "O", k] => do pure (.failed (.other 0), (← parseBool k))
  | ["x"] => some (.stop, true)
  | ["p"] => some (.pause, true)
  | ["r"] => some (.resume, true)
  | ["t", k] => do pure (.turn, (← parseBool k))
  | _ => none

def segDigest (s : Seg) : String :=
  let calls := if s.out.isEmpty then "-" else ",".intercalate (s.out.map showSegOut)
  let act := match s.active with
    | none => "-"
    | some n => toString n
  let res := match s.result with
    | none => "-"
    | some none => "done"
    | some (some e) => "err:" ++ showSegErr e
  "|".intercalate [calls, toString s.offset, toString s.size, b2s s.alive, b2s s.hungry, act, toString s.turns, res]

def runSEvs (s : Seg) (acc : List String) : List String → Option (List String)
  | [] => some acc.reverse
  | t :: rest =>
    match parseSEv t with
    | none => none
    | some (e, k) =>
      let s' := segStep { s with out := [] } k e
      runSEvs s' (segDigest s' :: acc) rest

/-! `sys K NUMSEGS BADSEGS FILESIZE SEGSIZE GUESS ev …` — the composed system (reads on one node); ev ∈
      R:RID:OFF:SIZE   node.read(consumer, OFF, SIZE)            d:REQ   the queued _deliver of request REQ runs
      X:RID | P:RID | U:RID | T:RID   stopProducing | pauseProducing | resumeProducing | queued turn of read RID
      a:… | n | u | s:GEN:ID:ST | l:GEN   the node's environment (as in `node` lines)
    Output after every event: `calls|requests|active|retired|reads`, reads = RID:offset:size:alive:hungry:active:turns:result:req. -/
def parseSysEv (reg : List Share) (t : String) : Option SysEv :=
  match t.splitOn ":" with
  | ["R", a, b, c] => do pure (.startRead (← a.toNat?) (← b.toNat?) (← c.toNat?))
  | ["d", q] => do pure (.deliver (← q.toNat?))
  | ["X", r] => do pure (.stop (← r.toNat?))
  | ["P", r] => do pure (.pause (← r.toNat?))
  | ["U", r] => do pure (.resume (← r.toNat?))
  | ["T", r] => do pure (.turn (← r.toNat?))
  | ["g", _, _] => none
  | ["c", _] => none
  | _ => (parseNEv reg t).map SysEv.node

def showOptNat : Option Nat → String
  | none => "-"
  | some n => toString n

def sysDigest (y : Sys) : String :=
  let ncalls := y.node.log.map (fun p => s!"{p.1}:{showOut p.2}")
  let rcalls := y.reads.flatMap (fun r => r.seg.out.map (fun o => s!"r{r.rid}:{showSegOut o}"))
  let calls := if (ncalls ++ rcalls).isEmpty then "-" else ",".intercalate (ncalls ++ rcalls)
  let n := y.node
  let reqs := if n.requests.isEmpty then "-" else ",".intercalate (n.requests.map (fun r => s!"{r.1}.{r.2}"))
  let act := match n.active with
    | none => "-"
    | some a => s!"{a.gen}.{a.segnum}.{b2s a.f.running}"
  let ret := if n.retired.isEmpty then "-" else ",".intercalate (n.retired.map (fun r => s!"{r.1}={showOutcome r.2}"))
  let rd (r : RSeg) : String :=
    let res := match r.seg.result with
      | none => "-"
      | some none => "done"
      | some (some e) => "err." ++ showSegErr e
    ":".intercalate [toString r.rid, toString r.seg.offset, toString r.seg.size, b2s r.seg.alive, b2s r.seg.hungry,
      showOptNat r.seg.active, toString r.seg.turns, res, showOptNat r.req]
  let reads := if y.reads.isEmpty then "-" else ",".intercalate (y.reads.map rd)
  "|".intercalate [calls, reqs, act, ret, reads]

def runSysEvs (y : Sys) (reg : List Share) (acc : List String) : List String → Option (List String)
  | [] => some acc.reverse
  | t :: rest =>
    match parseSysEv reg t with
    | none => none
    | some e =>
      let y0 := { y with node := { y.node with log := [] },
                         reads := y.reads.map (fun r => { r with seg := { r.seg with out := [] } }) }
      let y' := sysStep y0 e
      let reg' := match e with
        | .node (.gotShares l) => reg ++ l
        | _ => reg
      runSysEvs y' reg' (sysDigest y' :: acc) rest

/-! `sysf K NUMSEGS BADSEGS FILESIZE SEGSIZE GUESS MAXOUT SERVERS ev …` — composed system with the real finder; ev ∈
      FL | FR:REQ:SHNUMS | FE:REQ | FO:REQ   finder turn / get_buckets answer / failure / overdue timer
      M                                      the next queued got_shares / no_more_shares call reaches the node
      everything else: a `sys` event (R, d, X, P, U, T, u, s, l)
    Output after every event: the `sys` digest + `|finder calls|running.hungry.exhausted|pending|overdue|timers|floops|mail`. -/
def parseSysFEv (reg : List Share) (t : String) : Option SysFEv :=
  match t.splitOn ":" with
  | ["FL"] => some .fturn
  | ["FR", q, l] => do pure (.fresponse (← q.toNat?) (← parseNatList l))
  | ["FE", q] => do pure (.ferror (← q.toNat?))
  | ["FO", q] => do pure (.foverdue (← q.toNat?))
  | ["M"] => some .mail
  | ["a", _] => none
  | ["n"] => none
  | _ => (parseSysEv reg t).map SysFEv.sys

def showFOut2 : Tahoe.Finder.FOut → String
  | .send srv req => s!"send={srv}.{req}"
  | .gotShares srv shnums => s!"shares={srv}:" ++ "+".intercalate (shnums.map toString)
  | .noMoreShares => "nomore"
  | .exc => "exc"

def sysfDigest (z : SysF) : String :=
  let f := z.finder
  let fcalls := if f.out.isEmpty then "-" else ",".intercalate (f.out.map showFOut2)
  "|".intercalate [sysDigest z.sys, fcalls, b2s f.running ++ "." ++ b2s f.hungry ++ "." ++ b2s f.exhausted,
    showIds (f.pending.map (·.1)), showIds (sortNat f.overdue), showIds (sortNat f.timers), toString f.loops,
    toString z.mail.length]

def allShares (z : SysF) : List Share :=
  z.mail.flatMap (fun m => match m with
    | .gotShares l => l
    | _ => [])

def runSysFEvs (z : SysF) (reg : List Share) (acc : List String) : List String → Option (List String)
  | [] => some acc.reverse
  | t :: rest =>
    match parseSysFEv reg t with
    | none => none
    | some e =>
      let z0 := { z with finder := { z.finder with out := [] },
                         sys := { z.sys with reads := z.sys.reads.map (fun r => { r with seg := { r.seg with out := [] } }) } }
      let z' := sysfStep z0 e
      let z'' := match e with                 -- a finder step leaves the node's call log of the previous step: clear for printing
        | .sys _ => z'
        | .mail => z'
        | _ => { z' with sys := { z'.sys with node := { z'.sys.node with log := [] } } }
      let reg' := reg ++ (allShares z'').filter (fun sh => !(reg.contains sh))
      runSysFEvs z'' reg' (sysfDigest z'' :: acc) rest

def handle : List String → String
  | "node" :: mode :: k :: ns :: bad :: evs =>
    match (if mode == "fixed" then some true else if mode == "unfixed" then some false else none),
          k.toNat?, ns.toNat?, parseNatList bad with
    | some fx, some k, some ns, some bad =>
      match runNEvs { fixed := fx, k := k, numSegs := ns, badSegs := bad } [] [] evs with
      | some outs => if outs.isEmpty then "-" else ";".intercalate outs
      | none => "bad-op"
    | _, _, _, _ => "bad-op"
  | "sysf" :: k :: ns :: bad :: fs :: ss :: gs :: mx :: srv :: evs =>
    match k.toNat?, ns.toNat?, parseNatList bad, fs.toNat?, ss.toNat?, gs.toNat?, mx.toNat?, parseNatList srv with
    | some k, some ns, some bad, some fs, some ss, some gs, some mx, some srv =>
      match runSysFEvs { sys := { node := { k := k, numSegs := ns, badSegs := bad }, filesize := fs, segsize := ss, guess := gs },
                         finder := { maxOutstanding := mx, servers := srv } } [] [] evs with
      | some outs => if outs.isEmpty then "-" else ";".intercalate outs
      | none => "bad-op"
    | _, _, _, _, _, _, _, _ => "bad-op"
  | "sys" :: k :: ns :: bad :: fs :: ss :: gs :: evs =>
    match k.toNat?, ns.toNat?, parseNatList bad, fs.toNat?, ss.toNat?, gs.toNat? with
    | some k, some ns, some bad, some fs, some ss, some gs =>
      match runSysEvs { node := { k := k, numSegs := ns, badSegs := bad }, filesize := fs, segsize := ss, guess := gs } [] [] evs with
      | some outs => if outs.isEmpty then "-" else ";".intercalate outs
      | none => "bad-op"
    | _, _, _, _, _, _ => "bad-op"
  | "seg" :: ss :: gs :: off :: sz :: evs =>
    match ss.toNat?, gs.toNat?, off.toNat?, sz.toNat? with
    | some ss, some gs, some off, some sz =>
      match runSEvs { segsize := ss, guess := gs, offset := off, size := sz } [] evs with
      | some outs => if outs.isEmpty then "-" else ";".intercalate outs
      | none => "bad-op"
    | _, _, _, _ => "bad-op"
  | _ => "bad-op"

def main : IO Unit := mainLoop handle
