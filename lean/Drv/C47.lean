import Tahoe.Base.DrvUtil
import Tahoe.Mutable.PublishRun
import Tahoe.Mutable.WireTestv
/-! Driver for C47.

    `pub K CS VERINFO WRITERS ev ev …`
        K = required_shares, CS = the publish's `_checkstring` (interned number), VERINFO = T|F
        (`self.versioninfo` set), WRITERS = sh@srv,sh@srv,… (`-` if none),
        ev = p:sh@srv (the proxy's request failed) | a:sh@srv:T|F:sh=cs,sh=cs,… (`-` for an empty read_data)
        → result;surprised;writers left (sorted);placed (sorted, srv.sh);bad_servers (sorted);goal (sorted, srv.sh)
    `rpc K CS VERINFO WRITERS arr arr …`   (end to end: what happened to each proxy's request, in arrival order)
        arr = sh@srv:A:T|F:rd (executed and answered) | sh@srv:B (failed before reaching the server)
            | sh@srv:L:T|F (executed — wrote or refused — and the answer lost)
        → as `pub`, plus ;slots that now hold the new version (sorted, srv.sh)
    `proxy A:T|F:rd | B | L:T|F`  → what the write proxy's Deferred fires with: answer:T|F:rd or failure
    `testv OFF LEN SPECHEX SHAREHEX|N` → the wire 4-tuple `off,len,eq,spechex` and the server's verdict T|F on that share
    `wog GOAL`  → the write proxies `publish()` creates for a goal (sorted sh@srv)
    `goal TOTAL BAD FULL GOAL`
        BAD = server list, FULL = srv:T|F,… (permuted list with upload_permitted()), GOAL = srv.sh,…
        → new goal (sorted srv.sh) or `NotEnoughServersError` -/
open Tahoe.Drv Tahoe.Mutable Tahoe.Mutable.Pub

def parseWriter (t : String) : Option Writer :=
  match t.splitOn "@" with
  | [sh, srv] => do pure ⟨← sh.toNat?, ← srv.toNat?⟩
  | _ => none

def parseList {α : Type} (f : String → Option α) (sep : String) (t : String) : Option (List α) :=
  if t == "-" then some [] else (t.splitOn sep).mapM f

def parsePair (sep : String) (t : String) : Option (Nat × Nat) :=
  match t.splitOn sep with
  | [a, b] => do pure (← a.toNat?, ← b.toNat?)
  | _ => none

def parseB : String → Option Bool
  | "T" => some true | "F" => some false | _ => none

def parseEvent (t : String) : Option Event :=
  match t.splitOn ":" with
  | ["p", w] => do pure (.problem (← parseWriter w))
  | ["a", w, wrote, rd] => do pure (.answer (← parseWriter w) (← parseB wrote) (← parseList (parsePair "=") "," rd))
  | _ => none

def ins (lt : α → α → Bool) (a : α) : List α → List α
  | [] => [a]
  | b :: l => if lt a b then a :: b :: l else b :: ins lt a l
def sortBy (lt : α → α → Bool) (l : List α) : List α := l.foldr (ins lt) []
def pairLt (a b : Nat × Nat) : Bool := a.1 < b.1 || (a.1 == b.1 && a.2 < b.2)
def joinOr (sep : String) (l : List String) : String := if l.isEmpty then "-" else sep.intercalate l

def showResult : Result → String
  | .success => "success" | .notEnoughServers => "NotEnoughServersError" | .uncoordinatedWrite => "UncoordinatedWriteError"

def parseRpc (fs : List String) : Option Rpc :=
  match fs with
  | ["A", wrote, rd] => do pure (.answered (← parseB wrote) (← parseList (parsePair "=") "," rd))
  | ["B"] => some .lostBefore
  | ["L", wrote] => do pure (.lostAfter (← parseB wrote))
  | _ => none

def parseArrival (t : String) : Option (Writer × Rpc) :=
  match t.splitOn ":" with
  | w :: rest => do pure (← parseWriter w, ← parseRpc rest)
  | _ => none

def showSlots (l : List (Nat × Nat)) : String := joinOr "," ((sortBy pairLt l.eraseDups).map (fun x => s!"{x.1}.{x.2}"))

def showState (r : Result) (q : Pub) : String :=
  let sur := if q.surprised then "T" else "F"
  showResult r ++ ";" ++ sur ++ ";" ++
    joinOr "," ((sortBy pairLt (q.writers.map (fun w => (w.shnum, w.server)))).map (fun x => s!"{x.1}@{x.2}")) ++ ";" ++
    showSlots q.placed ++ ";" ++
    joinOr "," ((sortBy (· < ·) q.badServers).map toString) ++ ";" ++ showSlots q.goal

def mkPub (k cs vi ws : String) : Option Pub := do
  let writers ← parseList parseWriter "," ws
  pure { k := ← k.toNat?, checkstring := ← cs.toNat?, haveVerinfo := ← parseB vi, writers := writers,
         goal := writers.map (fun w => (w.server, w.shnum)) }

def handle : List String → String
  | "pub" :: k :: cs :: vi :: ws :: evs =>
    match (do
      let p ← mkPub k cs vi ws
      let es ← evs.mapM parseEvent
      -- the state after the events is only reached when the first `_push` did not fail
      let q := match pushCheck p with | some _ => p | none => es.foldl step p
      pure (showState (run p es) q)) with
    | some s => s
    | none => "bad-op"
  | "rpc" :: k :: cs :: vi :: ws :: arrs =>
    match (do
      let p ← mkPub k cs vi ws
      let as ← arrs.mapM parseArrival
      let q := match pushCheck p with | some _ => p | none => (eventsOf as).foldl step p
      -- nothing is sent when the first `_push` fails
      let stored := match pushCheck p with | some _ => [] | none => storedSlots as
      pure (showState (runRpcs p as) q ++ ";" ++ showSlots stored)) with
    | some s => s
    | none => "bad-op"
  | ["proxy", r] =>
    match parseRpc (r.splitOn ":") with
    | some rpc => (match proxyResult rpc with
      | some (wrote, rd) => "answer:" ++ (if wrote then "T" else "F") ++ ":" ++
          joinOr "," ((sortBy pairLt rd).map (fun x => s!"{x.1}={x.2}"))
      | none => "failure")
    | none => "bad-op"
  | ["testv", off, len, spec, share] =>
    match (do
      let sp ← bytesOfHex spec
      let t : Tahoe.Mutable.Wire.Testv := { offset := ← off.toNat?, length := ← len.toNat?, specimen := sp.map UInt8.toNat }
      let sh ← if share == "N" then some none else (bytesOfHex share).map (fun b => some (b.map UInt8.toNat))
      let w := Tahoe.Mutable.Wire.wireOf t
      pure (s!"{w.1},{w.2.1},{w.2.2.1}," ++ hexOfBytes (w.2.2.2.map UInt8.ofNat) ++ ";" ++
            (if Tahoe.Mutable.Wire.passes sh w then "T" else "F"))) with
    | some s => s
    | none => "bad-op"
  | ["wog", goal] =>
    match parseList (parsePair ".") "," goal with
    | some g => joinOr "," ((sortBy pairLt ((writersOfGoal g).map (fun w => (w.shnum, w.server)))).map (fun x => s!"{x.1}@{x.2}"))
    | none => "bad-op"
  | ["goal", total, bad, full, goal] =>
    match (do
      let fl ← parseList (fun t => match t.splitOn ":" with
        | [s, b] => do pure ((← s.toNat?), (← parseB b))
        | _ => none) "," full
      let g ← parseList (parsePair ".") "," goal
      pure (match updateGoal g (← parseNatList bad) (← total.toNat?) fl with
        | none => "NotEnoughServersError"
        | some g' => joinOr "," ((sortBy pairLt g').map (fun x => s!"{x.1}.{x.2}")))) with
    | some s => s
    | none => "bad-op"
  | _ => "bad-op"

def main : IO Unit := mainLoop handle
