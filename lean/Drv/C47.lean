import Tahoe.Base.DrvUtil
import Tahoe.Mutable.PublishDecision
/-! Driver for C47.

    `pub K CS VERINFO WRITERS ev ev …`
        K = required_shares, CS = the publish's `_checkstring` (interned number), VERINFO = T|F
        (`self.versioninfo` set), WRITERS = sh@srv,sh@srv,… (`-` if none),
        ev = p:sh@srv (the proxy's request failed) | a:sh@srv:T|F:sh=cs,sh=cs,… (`-` for an empty read_data)
        → result;surprised;writers left (sorted);placed (sorted, srv.sh);bad_servers (sorted)
    `goal TOTAL BAD FULL GOAL`
        BAD = server list, FULL = srv:T|F,… (permuted list with upload_permitted()), GOAL = srv.sh,…
        → new goal (sorted srv.sh) or `NotEnoughServersError` -/
open Tahoe.Drv Tahoe.Mutable Tahoe.Mutable.Pub

def parseWriter (t : String) : Option Writer :=
  match t.splitOn "@" with
  | [sh, srv] => do pure ⟨← sh.toNat?, ← srv.toNat?⟩
  | _ => none

def parseList {α : Type} (f : String → Option α) (sep : String) (t : String) : Option (List α) :=
  if t == "-" then some [] else (t.splitOn sep).mapM f

def parsePair (sep : String) (t : String) : Option (Nat × Nat) :=
  match t.splitOn sep with
  | [a, b] => do pure (← a.toNat?, ← b.toNat?)
  | _ => none

def parseB : String → Option Bool
  | "T" => some true | "F" => some false | _ => none

def parseEvent (t : String) : Option Event :=
  match t.splitOn ":" with
  | ["p", w] => do pure (.problem (← parseWriter w))
  | ["a", w, wrote, rd] => do pure (.answer (← parseWriter w) (← parseB wrote) (← parseList (parsePair "=") "," rd))
  | _ => none

def ins (lt : α → α → Bool) (a : α) : List α → List α
  | [] => [a]
  | b :: l => if lt a b then a :: b :: l else b :: ins lt a l
def sortBy (lt : α → α → Bool) (l : List α) : List α := l.foldr (ins lt) []
def pairLt (a b : Nat × Nat) : Bool := a.1 < b.1 || (a.1 == b.1 && a.2 < b.2)
def joinOr (sep : String) (l : List String) : String := if l.isEmpty then "-" else sep.intercalate l

def showResult : Result → String
  | .success => "success" | .notEnoughServers => "NotEnoughServersError" | .uncoordinatedWrite => "UncoordinatedWriteError"

def handle : List String → String
  | "pub" :: k :: cs :: vi :: ws :: evs =>
    match (do
      let p : Pub := {
        k := ← k.toNat?, checkstring := ← cs.toNat?, haveVerinfo := ← parseB vi,
        writers := ← parseList parseWriter "," ws }
      let es ← evs.mapM parseEvent
      let r := run p es
      -- the state after the events is only reached when the first `_push` did not fail
      let q := match pushCheck p with | some _ => p | none => es.foldl step p
      let sur := if q.surprised then "T" else "F"
      pure (showResult r ++ ";" ++ sur ++ ";" ++
        joinOr "," ((sortBy pairLt (q.writers.map (fun w => (w.shnum, w.server)))).map (fun x => s!"{x.1}@{x.2}")) ++ ";" ++
        joinOr "," ((sortBy pairLt q.placed).map (fun x => s!"{x.1}.{x.2}")) ++ ";" ++
        joinOr "," ((sortBy (· < ·) q.badServers).map toString))) with
    | some s => s
    | none => "bad-op"
  | ["goal", total, bad, full, goal] =>
    match (do
      let fl ← parseList (fun t => match t.splitOn ":" with
        | [s, b] => do pure ((← s.toNat?), (← parseB b))
        | _ => none) "," full
      let g ← parseList (parsePair ".") "," goal
      pure (match updateGoal g (← parseNatList bad) (← total.toNat?) fl with
        | none => "NotEnoughServersError"
        | some g' => joinOr "," ((sortBy pairLt g').map (fun x => s!"{x.1}.{x.2}")))) with
    | some s => s
    | none => "bad-op"
  | _ => "bad-op"

def main : IO Unit := mainLoop handle
