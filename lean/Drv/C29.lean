import Tahoe.Base.DrvUtil
import Tahoe.Storage.CrashDrv
/-! Driver for C29 (crash prefixes of immutable storage operations), see Tahoe/Storage/CrashDrv.lean. -/
def main : IO Unit := Tahoe.Drv.mainLoop Tahoe.Storage.CrashDrv.handle
