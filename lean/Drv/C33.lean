import Tahoe.Base.DrvUtil
import Tahoe.GridManager.Model
import Tahoe.StorageClient.Upload
import Tahoe.GridManager.DrvParse
/-! Driver for C33.  One verifier history per line:

    gmv <keys> <server> <ncerts> <cert>… <time>…

  keys   `-` or comma-separated key ids            server  Nat (id of the server's public-key string)
  cert   `<msg>/<sig>/<parsed>`   msg = Nat id of the certificate bytes
         sig    `s<k>_<m>` (honest signature by key k on message m) | `j<n>` (any other bytes)
         parsed `I` (json.loads raises) | `N` (null) | `O` (non-object) | `D.<exp>.<pk>`
                exp `A` absent | `S` not a string | `U` unparsable | `n<int>` naive | `a<int>` aware
                pk  `A` absent | `S` not a string | `U` not ASCII | `k<id>`
  time   `a<int>` | `n<int>`  (value returned by now_fn at one call of the predicate)

  Output: `X:<err>` if creating the verifier raises, else
          `bad=<k>@<msg>/<sig>,…;valid=<n>;<r>,<r>,…` with r ∈ T | F | E:<err>. -/
open Tahoe.Drv Tahoe.GridManager Tahoe.StorageClient Tahoe.GMDrv

def showErr : Err → String
  | .json => "json" | .key => "key" | .type => "type" | .value => "value"
  | .attr => "attr" | .unicode => "unicode"

def showRes : Except Err Bool → String
  | .ok true => "T" | .ok false => "F" | .error e => "E:" ++ showErr e

def handle : List String → String
  | "offer" :: rest => handleServers false rest
  | "gmv" :: keysT :: serverT :: nT :: rest =>
    match parseNatList keysT, serverT.toNat?, nT.toNat? with
    | some keys, some server, some n =>
      if rest.length < n then "bad-op" else
      match (rest.take n).mapM parseCert, (rest.drop n).mapM parseTime with
      | some cps, some times =>
        let certs := cps.map (·.1)
        let parse : Nat → Parsed Nat := fun m =>
          match cps.find? (fun cp => cp.1.certificate == m) with
          | some cp => cp.2
          | none => .invalid
        match verifier symVerify parse keys certs server with
        | .error e => "X:" ++ showErr e
        | .ok f =>
          let scan : Scan Nat SymSig Nat Nat :=
            if keys.isEmpty then ⟨[], []⟩ else
            match scanCerts symVerify parse keys certs ⟨[], []⟩ with
            | .ok s => s
            | .error _ => ⟨[], []⟩
          let bad := scan.bad.map (fun kc => s!"{kc.1}@{kc.2.certificate}/{showSig kc.2.signature}")
          let badS := if bad.isEmpty then "-" else ",".intercalate bad
          let res := times.map (fun t => showRes (f t))
          s!"bad={badS};valid={scan.valid.length};" ++ ",".intercalate res
      | _, _ => "bad-op"
    | _, _, _ => "bad-op"
  | _ => "bad-op"

def main : IO Unit := mainLoop handle
