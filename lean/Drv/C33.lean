import Tahoe.Base.DrvUtil
import Tahoe.GridManager.Model
import Tahoe.StorageClient.Upload
/-! Driver for C33.  One verifier history per line:

    gmv <keys> <server> <ncerts> <cert>… <time>…

  keys   `-` or comma-separated key ids            server  Nat (id of the server's public-key string)
  cert   `<msg>/<sig>/<parsed>`   msg = Nat id of the certificate bytes
         sig    `s<k>_<m>` (honest signature by key k on message m) | `j<n>` (any other bytes)
         parsed `I` (json.loads raises) | `N` (null) | `O` (non-object) | `D.<exp>.<pk>`
                exp `A` absent | `S` not a string | `U` unparsable | `n<int>` naive | `a<int>` aware
                pk  `A` absent | `S` not a string | `U` not ASCII | `k<id>`
  time   `a<int>` | `n<int>`  (value returned by now_fn at one call of the predicate)

  Output: `X:<err>` if creating the verifier raises, else
          `bad=<k>@<msg>/<sig>,…;valid=<n>;<r>,<r>,…` with r ∈ T | F | E:<err>. -/
open Tahoe.Drv Tahoe.GridManager Tahoe.StorageClient

def showErr : Err → String
  | .json => "json" | .key => "key" | .type => "type" | .value => "value"
  | .attr => "attr" | .unicode => "unicode"

def parseTime (s : String) : Option Time :=
  match s.toList with
  | 'a' :: r => (String.ofList r).toInt?.map Time.aware
  | 'n' :: r => (String.ofList r).toInt?.map Time.naive
  | _ => none

def parseSig (s : String) : Option SymSig :=
  match s.toList with
  | 's' :: r => match (String.ofList r).splitOn "_" with
    | [k, m] => do pure (SymSig.signed (← k.toNat?) (← m.toNat?))
    | _ => none
  | 'j' :: r => (String.ofList r).toNat?.map SymSig.junk
  | _ => none

def showSig : SymSig → String
  | .signed k m => s!"s{k}_{m}"
  | .junk n => s!"j{n}"

def parseExp (s : String) : Option JExpires :=
  if s == "A" then some .absent else if s == "S" then some .notStr
  else if s == "U" then some .unparsable else (parseTime s).map JExpires.time

def parsePk (s : String) : Option (JPubKey Nat) :=
  if s == "A" then some .absent else if s == "S" then some .notStr
  else if s == "U" then some .nonAscii else
  match s.toList with
  | 'k' :: r => (String.ofList r).toNat?.map JPubKey.ascii
  | _ => none

def parseParsed (s : String) : Option (Parsed Nat) :=
  if s == "I" then some .invalid else if s == "N" then some .null
  else if s == "O" then some .nonDict else
  match s.splitOn "." with
  | ["D", e, p] => do pure (.dict (← parseExp e) (← parsePk p))
  | _ => none

def parseCert (s : String) : Option (SignedCert SymSig Nat × Parsed Nat) :=
  match s.splitOn "/" with
  | [m, sg, p] => do pure (⟨← m.toNat?, ← parseSig sg⟩, ← parseParsed p)
  | _ => none

def showRes : Except Err Bool → String
  | .ok true => "T" | .ok false => "F" | .error e => "E:" ++ showErr e

def hexToNat (s : String) : Option Nat :=
  s.toList.foldlM (fun acc c => (hexVal c).map (fun v => acc * 16 + v)) 0

/-- the groups `S <id> <connected 0|1> <sha1 hex> <cert>…` of an `offer` line -/
def splitServers (toks : List String) : List (List String) :=
  (toks.foldr (fun t acc => if t == "S" then [] :: acc else
    match acc with
    | [] => [[t]]
    | g :: gs => (t :: g) :: gs) [[]]).filter (fun g => !g.isEmpty)

def parseAnnounced (g : List String) :
    Option (Announcement SymSig Nat × List (SignedCert SymSig Nat × Parsed Nat)) :=
  match g with
  | i :: c :: h :: certs => do
      -- a certificate token `U` is an entry `SignedCertificate.load` cannot decode
      let ents ← certs.mapM (fun t => if t == "U" then some none else (parseCert t).map some)
      let conn ← (if c == "0" then some false else if c == "1" then some true else none)
      pure (⟨← i.toNat?, conn, ents.map (fun e => e.map (·.1)), ← hexToNat h⟩, ents.filterMap id)
  | _ => none

/-- `offer <keys> <preferred> <forUpload 0|1> <time> S <id> <connected> <sha1> <cert>… S …`
    → ids of `get_servers_for_psi` at that time on the announced servers (`-` if none) -/
def handleOffer : List String → String
  | keysT :: prefT :: fuT :: timeT :: rest =>
    match parseNatList keysT, parseNatList prefT, parseTime timeT, (splitServers rest).mapM parseAnnounced with
    | some keys, some pref, some now, some srvs =>
      if fuT != "0" && fuT != "1" then "bad-op" else
      if rest.head? != some "S" && !rest.isEmpty then "bad-op" else
      let table := srvs.flatMap (·.2)
      let parse : Nat → Parsed Nat := fun m =>
        match table.find? (fun cp => cp.1.certificate == m) with
        | some cp => cp.2
        | none => .invalid
      let out := (serversAtA symVerify parse keys pref (fuT == "1") now (srvs.map (·.1))).map (fun s => toString s.id)
      if out.isEmpty then "-" else ",".intercalate out
    | _, _, _, _ => "bad-op"
  | _ => "bad-op"

def handle : List String → String
  | "offer" :: rest => handleOffer rest
  | "gmv" :: keysT :: serverT :: nT :: rest =>
    match parseNatList keysT, serverT.toNat?, nT.toNat? with
    | some keys, some server, some n =>
      if rest.length < n then "bad-op" else
      match (rest.take n).mapM parseCert, (rest.drop n).mapM parseTime with
      | some cps, some times =>
        let certs := cps.map (·.1)
        let parse : Nat → Parsed Nat := fun m =>
          match cps.find? (fun cp => cp.1.certificate == m) with
          | some cp => cp.2
          | none => .invalid
        match verifier symVerify parse keys certs server with
        | .error e => "X:" ++ showErr e
        | .ok f =>
          let scan : Scan Nat SymSig Nat Nat :=
            if keys.isEmpty then ⟨[], []⟩ else
            match scanCerts symVerify parse keys certs ⟨[], []⟩ with
            | .ok s => s
            | .error _ => ⟨[], []⟩
          let bad := scan.bad.map (fun kc => s!"{kc.1}@{kc.2.certificate}/{showSig kc.2.signature}")
          let badS := if bad.isEmpty then "-" else ",".intercalate bad
          let res := times.map (fun t => showRes (f t))
          s!"bad={badS};valid={scan.valid.length};" ++ ",".intercalate res
      | _, _ => "bad-op"
    | _, _, _ => "bad-op"
  | _ => "bad-op"

def main : IO Unit := mainLoop handle
