import Tahoe.Base.DrvUtil
import Tahoe.Spans.RegModel
/-! Driver for C37.
    `spans op op …` where op ∈ a:S:L (add) r:S:L (remove) c:S:L (contains) l (len)
    i:S+L,S+L,… (self := self & other)  u:… (self := self + other)  m:… (self := self - other)  d (dump)
    e (each(): all members in iteration order)  b (bool).
    `dspans op op …` where op ∈ a:OFF:HEX (add) r:S:L (remove) g:S:L (get) p:S:L (pop) l (len)
    s (get_spans) d (dump) e (_dump(): all held offsets in iteration order) b (bool); a chunk list prints as OFF=HEX,OFF=HEX,… (`-` if empty), `None` as N.
    `strace op …` / `dtrace op …`: the same op syntax (a r i u m c / a r g p); output = only the answers of
    the queries (c / g, p) in order, computed by the model's `strace` / `dtrace`; `none` if there are none.
    `reg op op …`: named values r0..r3 (Spans) and d0..d1 (DataSpans), all empty at the start; op ∈
    add:K:S:L rm:K:S:L and:K:I:J sub:K:I:J or:K:I:J iadd:I:J isub:I:J copy:K:I set:K:S+L,S+L,… one:K:S:L
    dadd:D:OFF:HEX drm:D:S:L dpop:D:S:L dcopy:D:E gs:K:D (rK = dD.get_spans())
    and the queries c:I:S:L len:I dget:D:S:L dlen:D.  After every op the field is
    `[result|]r0/r1/r2/r3/d0/d1` — ALL registers, so that aliasing in the real code cannot hide.
    Output: one field per op joined by `;`. -/
open Tahoe.Drv Tahoe.Spans

def showSpans (s : List Span) : String :=
  if s.isEmpty then "-" else ",".intercalate (s.map (fun sp => s!"{sp.1}+{sp.2}"))

def parseSpans (t : String) : Option (List Span) :=
  if t == "-" then some [] else
  (t.splitOn ",").mapM (fun p => match p.splitOn "+" with
    | [a, b] => do pure ((← a.toNat?), (← b.toNat?))
    | _ => none)

def stepOp (s : List Span) (op : String) : Option (List Span × String) :=
  match op.splitOn ":" with
  | ["a", a, l] => do let s' := (sstepQ s (.op (.add (← a.toNat?) (← l.toNat?)))).1; pure (s', showSpans s')
  | ["r", a, l] => do
      -- the method as written (`removeLit`); flagged if it ever differs from the span-by-span `remove` of the theorems
      let a ← a.toNat?; let l ← l.toNat?
      let s' := removeLit s a l
      let s2 := (sstepQ s (.op (.remove a l))).1
      pure (s', showSpans s' ++ (if s' == s2 then "" else "!flatMap=" ++ showSpans s2))
  | ["c", a, l] => do
      match (sstepQ s (.contains (← a.toNat?) (← l.toNat?))).2 with
      | some b => pure (s, if b then "T" else "F")
      | none => none
  | ["l"] => some (s, toString (len s))
  | ["e"] => some (s, if (each s).isEmpty then "-" else showNatList (each s))
  | ["b"] => some (s, if spBool s then "T" else "F")
  | ["d"] => some (s, showSpans s)
  | ["i", o] => do let s' := (sstepQ s (.op (.inter (← parseSpans o)))).1; pure (s', showSpans s')
  | ["u", o] => do let s' := (sstepQ s (.op (.union (← parseSpans o)))).1; pure (s', showSpans s')
  | ["m", o] => do let s' := (sstepQ s (.op (.diff (← parseSpans o)))).1; pure (s', showSpans s')
  | _ => none

def runOps (s : List Span) (acc : List String) : List String → Option (List String)
  | [] => some acc.reverse
  | op :: rest => match stepOp s op with
    | some (s', out) => runOps s' (out :: acc) rest
    | none => none

def showChunks (s : List Chunk) : String :=
  if s.isEmpty then "-" else ",".intercalate (s.map (fun c => s!"{c.1}={hexOfBytes c.2}"))

def showOpt : Option (List UInt8) → String
  | none => "N"
  | some b => hexOfBytes b

def stepDOp (s : List Chunk) (op : String) : Option (List Chunk × String) :=
  match op.splitOn ":" with
  | ["a", a, h] => do let s' := (dstepQ s (.op (.add (← a.toNat?) (← bytesOfHex h)))).1; pure (s', showChunks s')
  | ["r", a, l] => do let s' := (dstepQ s (.op (.remove (← a.toNat?) (← l.toNat?)))).1; pure (s', showChunks s')
  | ["g", a, l] => do
      match (dstepQ s (.get (← a.toNat?) (← l.toNat?))).2 with
      | some r => pure (s, showOpt r)
      | none => none
  | ["p", a, l] => do
      let r := dstepQ s (.op (.pop (← a.toNat?) (← l.toNat?)))
      match r.2 with
      | some ans => pure (r.1, showOpt ans ++ "/" ++ showChunks r.1)
      | none => none
  | ["l"] => some (s, toString (dlen s))
  | ["e"] => some (s, if (dDump s).isEmpty then "-" else showNatList (dDump s))
  | ["b"] => some (s, if dBool s then "T" else "F")
  | ["s"] => some (s, showSpans (getSpans s))
  | ["d"] => some (s, showChunks s)
  | _ => none

def runDOps (s : List Chunk) (acc : List String) : List String → Option (List String)
  | [] => some acc.reverse
  | op :: rest => match stepDOp s op with
    | some (s', out) => runDOps s' (out :: acc) rest
    | none => none

def nR : Nat := 4
def nD : Nat := 2

def showRegs (st : RState) : String :=
  "/".intercalate (((List.range nR).map (fun i => showSpans (st.r i))) ++
                   ((List.range nD).map (fun i => showChunks (st.d i))))

def regR (t : String) : Option Nat := do let k ← t.toNat?; if k < nR then some k else none
def regD (t : String) : Option Nat := do let k ← t.toNat?; if k < nD then some k else none

/-- parse one token into a state-changing `ROp` (with an optional query result computed on the state before) -/
def parseROp (st : RState) (op : String) : Option (Option ROp × Option String) :=
  match op.splitOn ":" with
  | ["add", k, a, l] => do pure (some (.add (← regR k) (← a.toNat?) (← l.toNat?)), none)
  | ["rm", k, a, l] => do pure (some (.rm (← regR k) (← a.toNat?) (← l.toNat?)), none)
  | ["and", k, i, j] => do pure (some (.and (← regR k) (← regR i) (← regR j)), none)
  | ["sub", k, i, j] => do pure (some (.sub (← regR k) (← regR i) (← regR j)), none)
  | ["or", k, i, j] => do pure (some (.or (← regR k) (← regR i) (← regR j)), none)
  | ["iadd", i, j] => do pure (some (.iadd (← regR i) (← regR j)), none)
  | ["isub", i, j] => do pure (some (.isub (← regR i) (← regR j)), none)
  | ["copy", k, i] => do pure (some (.copy (← regR k) (← regR i)), none)
  | ["set", k, o] => do pure (some (.set (← regR k) (← parseSpans o)), none)
  | ["one", k, a, l] => do pure (some (.single (← regR k) (← a.toNat?) (← l.toNat?)), none)
  | ["dadd", d, a, h] => do pure (some (.dadd (← regD d) (← a.toNat?) (← bytesOfHex h)), none)
  | ["drm", d, a, l] => do pure (some (.drm (← regD d) (← a.toNat?) (← l.toNat?)), none)
  | ["dpop", d, a, l] => do
      let d ← regD d; let a ← a.toNat?; let l ← l.toNat?
      pure (some (.dpop d a l), some (showOpt (dpop (st.d d) a l).1))
  | ["dcopy", d, e] => do pure (some (.dcopy (← regD d) (← regD e)), none)
  | ["gs", k, d] => do pure (some (.getspans (← regR k) (← regD d)), none)
  | ["c", i, a, l] => do
      pure (none, some (if containsRange (st.r (← regR i)) (← a.toNat?) (← l.toNat?) then "T" else "F"))
  | ["len", i] => do pure (none, some (toString (len (st.r (← regR i)))))
  | ["dget", d, a, l] => do pure (none, some (showOpt (dget (← a.toNat?) (← l.toNat?) (st.d (← regD d)))))
  | ["dlen", d] => do pure (none, some (toString (dlen (st.d (← regD d)))))
  | _ => none

def runROps (st : RState) (acc : List String) : List String → Option (List String)
  | [] => some acc.reverse
  | op :: rest => match parseROp st op with
    | some (o, res) =>
      let st' := match o with | some o => rstep st o | none => st
      let out := (match res with | some r => r ++ "|" | none => "") ++ showRegs st'
      runROps st' (out :: acc) rest
    | none => none

/-- `strace op …` (a r i u m c): only the answers of the whole history, via `strace` -/
def parseSQ (op : String) : Option SQ :=
  match op.splitOn ":" with
  | ["a", a, l] => do pure (.op (.add (← a.toNat?) (← l.toNat?)))
  | ["r", a, l] => do pure (.op (.remove (← a.toNat?) (← l.toNat?)))
  | ["i", o] => do pure (.op (.inter (← parseSpans o)))
  | ["u", o] => do pure (.op (.union (← parseSpans o)))
  | ["m", o] => do pure (.op (.diff (← parseSpans o)))
  | ["c", a, l] => do pure (.contains (← a.toNat?) (← l.toNat?))
  | _ => none

/-- `dtrace op …` (a r g p): only the answers of the whole history, via `dtrace` -/
def parseDQ (op : String) : Option DQ :=
  match op.splitOn ":" with
  | ["a", a, h] => do pure (.op (.add (← a.toNat?) (← bytesOfHex h)))
  | ["r", a, l] => do pure (.op (.remove (← a.toNat?) (← l.toNat?)))
  | ["p", a, l] => do pure (.op (.pop (← a.toNat?) (← l.toNat?)))
  | ["g", a, l] => do pure (.get (← a.toNat?) (← l.toNat?))
  | _ => none

def showAnswers (l : List String) : String := if l.isEmpty then "none" else ";".intercalate l

def handle : List String → String
  | "strace" :: ops => match ops.mapM parseSQ with
    | some qs => showAnswers ((strace [] qs).map (fun b => if b then "T" else "F"))
    | none => "bad-op"
  | "dtrace" :: ops => match ops.mapM parseDQ with
    | some qs => showAnswers ((dtrace [] qs).map showOpt)
    | none => "bad-op"
  | "reg" :: ops => match runROps RState.empty [] ops with
    | some outs => ";".intercalate outs
    | none => "bad-op"
  | "spans" :: ops => match runOps [] [] ops with
    | some outs => ";".intercalate outs
    | none => "bad-op"
  | "dspans" :: ops => match runDOps [] [] ops with
    | some outs => ";".intercalate outs
    | none => "bad-op"
  | _ => "bad-op"

def main : IO Unit := mainLoop handle
