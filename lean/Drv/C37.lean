import Tahoe.Base.DrvUtil
import Tahoe.Spans.DataModel
/-! Driver for C37.
    `spans op op …` where op ∈ a:S:L (add) r:S:L (remove) c:S:L (contains) l (len)
    i:S+L,S+L,… (self := self & other)  u:… (self := self + other)  m:… (self := self - other)  d (dump).
    `dspans op op …` where op ∈ a:OFF:HEX (add) r:S:L (remove) g:S:L (get) p:S:L (pop) l (len)
    s (get_spans) d (dump); a chunk list prints as OFF=HEX,OFF=HEX,… (`-` if empty), `None` as N.
    Output: one field per op joined by `;`. -/
open Tahoe.Drv Tahoe.Spans

def showSpans (s : List Span) : String :=
  if s.isEmpty then "-" else ",".intercalate (s.map (fun sp => s!"{sp.1}+{sp.2}"))

def parseSpans (t : String) : Option (List Span) :=
  if t == "-" then some [] else
  (t.splitOn ",").mapM (fun p => match p.splitOn "+" with
    | [a, b] => do pure ((← a.toNat?), (← b.toNat?))
    | _ => none)

def stepOp (s : List Span) (op : String) : Option (List Span × String) :=
  match op.splitOn ":" with
  | ["a", a, l] => do let s' := add s (← a.toNat?) (← l.toNat?); pure (s', showSpans s')
  | ["r", a, l] => do let s' := remove s (← a.toNat?) (← l.toNat?); pure (s', showSpans s')
  | ["c", a, l] => do pure (s, if containsRange s (← a.toNat?) (← l.toNat?) then "T" else "F")
  | ["l"] => some (s, toString (len s))
  | ["d"] => some (s, showSpans s)
  | ["i", o] => do let s' := inter s (← parseSpans o); pure (s', showSpans s')
  | ["u", o] => do let s' := addAll s (← parseSpans o); pure (s', showSpans s')
  | ["m", o] => do let s' := removeAll s (← parseSpans o); pure (s', showSpans s')
  | _ => none

def runOps (s : List Span) (acc : List String) : List String → Option (List String)
  | [] => some acc.reverse
  | op :: rest => match stepOp s op with
    | some (s', out) => runOps s' (out :: acc) rest
    | none => none

def showChunks (s : List Chunk) : String :=
  if s.isEmpty then "-" else ",".intercalate (s.map (fun c => s!"{c.1}={hexOfBytes c.2}"))

def showOpt : Option (List UInt8) → String
  | none => "N"
  | some b => hexOfBytes b

def stepDOp (s : List Chunk) (op : String) : Option (List Chunk × String) :=
  match op.splitOn ":" with
  | ["a", a, h] => do let s' := dadd s (← a.toNat?) (← bytesOfHex h); pure (s', showChunks s')
  | ["r", a, l] => do let s' := dremove (← a.toNat?) (← l.toNat?) s; pure (s', showChunks s')
  | ["g", a, l] => do pure (s, showOpt (dget (← a.toNat?) (← l.toNat?) s))
  | ["p", a, l] => do
      let r := dpop s (← a.toNat?) (← l.toNat?)
      pure (r.2, showOpt r.1 ++ "/" ++ showChunks r.2)
  | ["l"] => some (s, toString (dlen s))
  | ["s"] => some (s, showSpans (getSpans s))
  | ["d"] => some (s, showChunks s)
  | _ => none

def runDOps (s : List Chunk) (acc : List String) : List String → Option (List String)
  | [] => some acc.reverse
  | op :: rest => match stepDOp s op with
    | some (s', out) => runDOps s' (out :: acc) rest
    | none => none

def handle : List String → String
  | "spans" :: ops => match runOps [] [] ops with
    | some outs => ";".intercalate outs
    | none => "bad-op"
  | "dspans" :: ops => match runDOps [] [] ops with
    | some outs => ";".intercalate outs
    | none => "bad-op"
  | _ => "bad-op"

def main : IO Unit := mainLoop handle
