import Tahoe.Base.DrvUtil
import Tahoe.Spans.Model
/-! Driver for C37: `spans op op …` where op ∈ a:S:L (add) r:S:L (remove) c:S:L (contains) l (len)
    i:S+L,S+L,… (self := self & other)  d (dump).  Output: one field per op joined by `;`. -/
open Tahoe.Drv Tahoe.Spans

def showSpans (s : List Span) : String :=
  if s.isEmpty then "-" else ",".intercalate (s.map (fun sp => s!"{sp.1}+{sp.2}"))

def parseSpans (t : String) : Option (List Span) :=
  if t == "-" then some [] else
  (t.splitOn ",").mapM (fun p => match p.splitOn "+" with
    | [a, b] => do pure ((← a.toNat?), (← b.toNat?))
    | _ => none)

def stepOp (s : List Span) (op : String) : Option (List Span × String) :=
  match op.splitOn ":" with
  | ["a", a, l] => do let s' := add s (← a.toNat?) (← l.toNat?); pure (s', showSpans s')
  | ["r", a, l] => do let s' := remove s (← a.toNat?) (← l.toNat?); pure (s', showSpans s')
  | ["c", a, l] => do pure (s, if containsRange s (← a.toNat?) (← l.toNat?) then "T" else "F")
  | ["l"] => some (s, toString (len s))
  | ["d"] => some (s, showSpans s)
  | ["i", o] => do let s' := inter s (← parseSpans o); pure (s', showSpans s')
  | _ => none

def runOps (s : List Span) (acc : List String) : List String → Option (List String)
  | [] => some acc.reverse
  | op :: rest => match stepOp s op with
    | some (s', out) => runOps s' (out :: acc) rest
    | none => none

def handle : List String → String
  | "spans" :: ops => match runOps [] [] ops with
    | some outs => ";".intercalate outs
    | none => "bad-op"
  | _ => "bad-op"

def main : IO Unit := mainLoop handle
