import Tahoe.Base.DrvUtil
import Tahoe.BackupDb.Session
/-! Driver for C42.  One line = one history of `BackupDB_v2` calls on a fresh database:

      hist <op> <op> …

    op ::= cf:<path>:<size>:<mtime>:<ctime>:<ts 0|1>:<now>:<rnd>    check_file → `<filecap|N>,<should_check T|F>,<was_uploaded()|F>`
         | up:<cap>:<path>:<mtime>:<ctime>:<size>:<now>             did_upload_file → `ok`
         | upr:<k>:<cap>:<now>                                      FileResult(of the k-th cf of this line, 0-based).did_upload → `ok`
         | hlr:<k>:<now>                                            FileResult(k-th cf).did_check_healthy → `ok`
         | dcr:<k>:<dircap>:<now>                                   DirectoryResult(k-th cd).did_create → `ok`
         | dhr:<k>:<now>                                            DirectoryResult(k-th cd).did_check_healthy → `ok`
         | tf:<path>:<size>:<mtime>:<ctime>:<ign 0|1>:<newcap>:<healthy 0|1>:<now>:<rnd>   one file of a backup run (BackerUpper.upload) → `<uploaded T|F>,<cap used>`
         | td:<entries>:<newdircap>:<healthy 0|1>:<now>:<rnd>       one directory of a backup run (BackerUpper.upload_directory) → `<created T|F>,<dircap used>`
         | hl:<cap>:<now>                                           did_check_file_healthy → `ok`
         | cd:<entries>:<now>:<rnd>                                 check_directory → `<hashed data>,<dircap|N>,<T|F>,<was_created()|F>`
         | dc:<dircap>:<entries>:<now>                              DirectoryResult(of check_directory(entries)).did_create → `ok`
         | dh:<dircap>:<now>                                        did_check_directory_healthy → `ok`
         | dump                                                     the four tables, rows sorted
    entries ::= `_` (empty dict) | name.cap,name.cap,…   (dict iteration order)
    bytes are lowercase hex (`-` = empty); `rnd` is the numerator of random() over 1024.
    The directory hash is the identity (collision-free instance): the table is keyed by the hashed data. -/
open Tahoe.Drv Tahoe.BackupDb

abbrev DB := Db Tahoe.BackupDb.Bytes

def hexOpt : Option Tahoe.BackupDb.Bytes → String
  | some b => hexOfBytes b
  | none => "N"

def hexOrF : Option Tahoe.BackupDb.Bytes → String
  | some b => hexOfBytes b
  | none => "F"

def tf (b : Bool) : String := if b then "T" else "F"

def parseEntries (t : String) : Option (List Entry) :=
  if t == "_" then some [] else
  (t.splitOn ",").mapM (fun p => match p.splitOn "." with
    | [n, c] => do pure ((← bytesOfHex n), (← bytesOfHex c))
    | _ => none)

def sortBy {α : Type} (key : α → String) (l : List α) : List α :=
  l.mergeSort (fun a b => decide (key a ≤ key b))

def natKey (n : Nat) : String :=
  let s := toString n
  String.ofList (List.replicate (12 - s.length) '0') ++ s

def dump (db : DB) : String :=
  let lf := (sortBy (fun p => hexOfBytes p.1) db.localFiles).map
    (fun (p, r) => s!"{hexOfBytes p}/{r.size}/{r.mtime}/{r.ctime}/{r.fileid}")
  let caps := (sortBy (fun p => natKey p.1) db.caps).map (fun (i, c) => s!"{i}/{hexOfBytes c}")
  let lu := (sortBy (fun p => natKey p.1) db.lastUpload).map (fun (i, u) => s!"{i}/{u.uploaded}/{u.checked}")
  let dirs := (sortBy (fun p => hexOfBytes p.1) db.dirs).map
    (fun (k, r) => s!"{hexOfBytes k}/{hexOfBytes r.dircap}/{r.uploaded}/{r.checked}")
  s!"lf[{"|".intercalate lf}]caps[{"|".intercalate caps}]lu[{"|".intercalate lu}]dirs[{"|".intercalate dirs}]"

abbrev S := Sess Tahoe.BackupDb.Bytes

/-- every op is one `sstep` of the session model (`Tahoe/BackupDb/Session.lean`); direct API calls go through `SOp.api` -/
def parseOp (s : S) (op : String) : Option (SOp × (S → String)) :=
  let ok : S → String := fun _ => "ok"
  match op.splitOn ":" with
  | ["cf", p, sz, mt, ct, ts, now, rnd] => do
    let ts ← (if ts == "1" then some true else if ts == "0" then some false else none)
    pure (.check (← bytesOfHex p) ⟨← sz.toInt?, ← mt.toInt?, ← ct.toInt?⟩ ts (← now.toInt?) (← rnd.toNat?),
          fun s' => match s'.fres.getLast? with
            | some r => s!"{hexOpt r.filecap},{tf r.shouldCheck},{hexOrF r.wasUploaded}"
            | none => "bad-op")
  | ["up", cap, p, mt, ct, sz, now] => do
    pure (.api (.didUpload (← bytesOfHex cap) (← bytesOfHex p) (← mt.toInt?) (← ct.toInt?) (← sz.toInt?) (← now.toInt?)), ok)
  | ["upr", k, cap, now] => do
    let k ← k.toNat?
    let _ ← s.fres[k]?
    pure (.uploadVia k (← bytesOfHex cap) (← now.toInt?), ok)
  | ["hlr", k, now] => do
    let k ← k.toNat?
    let _ ← s.fres[k]?
    pure (.healthyVia k (← now.toInt?), ok)
  | ["hl", cap, now] => do pure (.api (.didCheckHealthy (← bytesOfHex cap) (← now.toInt?)), ok)
  | ["cd", es, now, rnd] => do
    pure (.checkDir (← parseEntries es) (← now.toInt?) (← rnd.toNat?),
          fun s' => match s'.dres.getLast? with
            | some (r, _) => s!"{hexOfBytes r.dirhash},{hexOpt r.dircap},{tf r.shouldCheck},{hexOrF r.wasCreated}"
            | none => "bad-op")
  | ["dcr", k, d, now] => do
    let k ← k.toNat?
    let _ ← s.dres[k]?
    pure (.createVia k (← bytesOfHex d) (← now.toInt?), ok)
  | ["dhr", k, now] => do
    let k ← k.toNat?
    let _ ← s.dres[k]?
    pure (.dirHealthyVia k (← now.toInt?), ok)
  | ["dc", d, es, now] => do pure (.api (.didCreateDir (← bytesOfHex d) (← parseEntries es) (← now.toInt?)), ok)
  | ["dh", d, now] => do pure (.api (.didCheckDirHealthy (← bytesOfHex d) (← now.toInt?)), ok)
  | _ => none

def bit (t : String) : Option Bool := if t == "1" then some true else if t == "0" then some false else none

/-- the run-level steps `tstep` (`toolFileStep` / `toolDirStep`) of the session model -/
def toolOp (s : S) (op : String) : Option (S × String) :=
  match op.splitOn ":" with
  | ["tf", p, sz, mt, ct, ign, cap, healthy, now, rnd] => do
    let (s', up, c) := tstep id s (.file (← bytesOfHex p) ⟨← sz.toInt?, ← mt.toInt?, ← ct.toInt?⟩ (← bit ign)
      (← bytesOfHex cap) (← bit healthy) (← now.toInt?) (← rnd.toNat?))
    pure (s', s!"{tf up},{hexOfBytes c}")
  | ["td", es, d, healthy, now, rnd] => do
    let (s', cr, c) := tstep id s (.dir (← parseEntries es) (← bytesOfHex d) (← bit healthy) (← now.toInt?) (← rnd.toNat?))
    pure (s', s!"{tf cr},{hexOfBytes c}")
  | _ => none

def runOps (s : S) (acc : List String) : List String → Option (List String)
  | [] => some acc.reverse
  | "dump" :: rest => runOps s (dump s.db :: acc) rest
  | op :: rest => match parseOp s op with
    | some (sop, out) =>
      let s' := sstep id s sop
      runOps s' (out s' :: acc) rest
    | none => match toolOp s op with
      | some (s', out) => runOps s' (out :: acc) rest
      | none => none

def handle : List String → String
  | "hist" :: ops => match runOps {} [] ops with
    | some outs => ";".intercalate outs
    | none => "bad-op"
  | _ => "bad-op"

def main : IO Unit := mainLoop handle
