import Tahoe.Base.DrvUtil
import Tahoe.BackupDb
/-! Driver for C42.  One line = one history of `BackupDB_v2` calls on a fresh database:

      hist <op> <op> …

    op ::= cf:<path>:<size>:<mtime>:<ctime>:<ts 0|1>:<now>:<rnd>    check_file → `<filecap|N>,<should_check T|F>,<was_uploaded()|F>`
         | up:<cap>:<path>:<mtime>:<ctime>:<size>:<now>             did_upload_file → `ok`
         | upr:<k>:<cap>:<now>                                      FileResult(of the k-th cf of this line, 0-based).did_upload → `ok`
         | hl:<cap>:<now>                                           did_check_file_healthy → `ok`
         | cd:<entries>:<now>:<rnd>                                 check_directory → `<hashed data>,<dircap|N>,<T|F>,<was_created()|F>`
         | dc:<dircap>:<entries>:<now>                              DirectoryResult(of check_directory(entries)).did_create → `ok`
         | dh:<dircap>:<now>                                        did_check_directory_healthy → `ok`
         | dump                                                     the four tables, rows sorted
    entries ::= `_` (empty dict) | name.cap,name.cap,…   (dict iteration order)
    bytes are lowercase hex (`-` = empty); `rnd` is the numerator of random() over 1024.
    The directory hash is the identity (collision-free instance): the table is keyed by the hashed data. -/
open Tahoe.Drv Tahoe.BackupDb

abbrev DB := Db Tahoe.BackupDb.Bytes

def hexOpt : Option Tahoe.BackupDb.Bytes → String
  | some b => hexOfBytes b
  | none => "N"

def hexOrF : Option Tahoe.BackupDb.Bytes → String
  | some b => hexOfBytes b
  | none => "F"

def tf (b : Bool) : String := if b then "T" else "F"

def parseEntries (t : String) : Option (List Entry) :=
  if t == "_" then some [] else
  (t.splitOn ",").mapM (fun p => match p.splitOn "." with
    | [n, c] => do pure ((← bytesOfHex n), (← bytesOfHex c))
    | _ => none)

def sortBy {α : Type} (key : α → String) (l : List α) : List α :=
  l.mergeSort (fun a b => decide (key a ≤ key b))

def natKey (n : Nat) : String :=
  let s := toString n
  String.ofList (List.replicate (12 - s.length) '0') ++ s

def dump (db : DB) : String :=
  let lf := (sortBy (fun p => hexOfBytes p.1) db.localFiles).map
    (fun (p, r) => s!"{hexOfBytes p}/{r.size}/{r.mtime}/{r.ctime}/{r.fileid}")
  let caps := (sortBy (fun p => natKey p.1) db.caps).map (fun (i, c) => s!"{i}/{hexOfBytes c}")
  let lu := (sortBy (fun p => natKey p.1) db.lastUpload).map (fun (i, u) => s!"{i}/{u.uploaded}/{u.checked}")
  let dirs := (sortBy (fun p => hexOfBytes p.1) db.dirs).map
    (fun (k, r) => s!"{hexOfBytes k}/{hexOfBytes r.dircap}/{r.uploaded}/{r.checked}")
  s!"lf[{"|".intercalate lf}]caps[{"|".intercalate caps}]lu[{"|".intercalate lu}]dirs[{"|".intercalate dirs}]"

def stepOp (db : DB) (res : List FileResult) (op : String) : Option (DB × List FileResult × String) :=
  match op.splitOn ":" with
  | ["cf", p, sz, mt, ct, ts, now, rnd] => do
    let ts ← (if ts == "1" then some true else if ts == "0" then some false else none)
    let (db', r) := checkFile db (← bytesOfHex p) ⟨← sz.toInt?, ← mt.toInt?, ← ct.toInt?⟩ ts (← now.toInt?) (← rnd.toNat?)
    pure (db', res ++ [r], s!"{hexOpt r.filecap},{tf r.shouldCheck},{hexOrF r.wasUploaded}")
  | ["up", cap, p, mt, ct, sz, now] => do
    pure (didUploadFile db (← bytesOfHex cap) (← bytesOfHex p) (← mt.toInt?) (← ct.toInt?) (← sz.toInt?) (← now.toInt?), res, "ok")
  | ["upr", k, cap, now] => do
    let r ← res[(← k.toNat?)]?
    pure (r.didUpload db (← bytesOfHex cap) (← now.toInt?), res, "ok")
  | ["hl", cap, now] => do pure (didCheckFileHealthy db (← bytesOfHex cap) (← now.toInt?), res, "ok")
  | ["cd", es, now, rnd] => do
    let es ← parseEntries es
    let r := checkDirectory id db es (← now.toInt?) (← rnd.toNat?)
    pure (db, res, s!"{hexOfBytes r.dirhash},{hexOpt r.dircap},{tf r.shouldCheck},{hexOrF r.wasCreated}")
  | ["dc", d, es, now] => do
    pure (didCreateDirectory db (← bytesOfHex d) (dirData (← parseEntries es)) (← now.toInt?), res, "ok")
  | ["dh", d, now] => do pure (didCheckDirectoryHealthy db (← bytesOfHex d) (← now.toInt?), res, "ok")
  | ["dump"] => some (db, res, dump db)
  | _ => none

def runOps (db : DB) (res : List FileResult) (acc : List String) : List String → Option (List String)
  | [] => some acc.reverse
  | op :: rest => match stepOp db res op with
    | some (db', res', out) => runOps db' res' (out :: acc) rest
    | none => none

def handle : List String → String
  | "hist" :: ops => match runOps {} [] [] ops with
    | some outs => ";".intercalate outs
    | none => "bad-op"
  | _ => "bad-op"

def main : IO Unit := mainLoop handle
