import Tahoe.Base.DrvUtil
import Tahoe.Mutable.Authentic
/-! Driver for C10: `fd <cold|warm> <field>` → `accept` | `reject`: the reader's decision on a single
share in which exactly the named field was altered (field names as in `Tahoe.Authentic.Field`). -/
open Tahoe.Drv Tahoe.Authentic

def parseField : String → Option Field
  | "none" => some .none | "version" => some .version | "seqnum" => some .seqnum
  | "root_hash" => some .rootHash | "salt" => some .salt | "kN" => some .kN
  | "segsize" => some .segsize | "datalen" => some .datalen | "pubkey" => some .pubkey
  | "signature" => some .signature | "share_data" => some .shareData
  | "enc_privkey" => some .encPrivkey
  | _ => none

def handle : List String → String
  | ["fd", w, f] =>
    match (if w == "cold" then some false else if w == "warm" then some true else none), parseField f with
    | some warm, some fld => if fieldDecision warm fld then "accept" else "reject"
    | _, _ => "bad-op"
  | _ => "bad-op"

def main : IO Unit := mainLoop handle
