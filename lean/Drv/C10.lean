import Tahoe.Base.DrvUtil
import Tahoe.Mutable.Authentic
/-! Driver for C10: `fd <cold|warm> <field>` → `accept` | `reject`: the reader's decision on a single
share in which exactly the named field was altered (field names as in `Tahoe.Authentic.Field`).
`rt <seed family|-> ev…` with ev = o:<shnum>:<fam> | d:<shnum>:<fam>:<id> | x:<shnum> → `<a|r per event> | <root>`:
one Retrieve's share hash tree (seeded with the root of the given family, or unseeded) fed a sequence
of shares; root = fam:<f> | junk | none. -/
open Tahoe.Drv Tahoe.Authentic

def parseField : String → Option Field
  | "none" => some .none | "version" => some .version | "seqnum" => some .seqnum
  | "root_hash" => some .rootHash | "salt" => some .salt | "kN" => some .kN
  | "segsize" => some .segsize | "datalen" => some .datalen | "pubkey" => some .pubkey
  | "signature" => some .signature | "share_data" => some .shareData
  | "enc_privkey" => some .encPrivkey
  | _ => none

def parseEv (t : String) : Option Toy.Ev :=
  match t.splitOn ":" with
  | ["o", i, f] => do pure (.offer (← i.toNat?) (← f.toNat?))
  | ["d", i, f, id] => do pure (.damaged (← i.toNat?) (← f.toNat?) (← id.toNat?))
  | ["x", i] => do pure (.fail (← i.toNat?))
  | _ => none

def showRoot : Option Toy.TH → String
  | none => "none"
  | some (.fam f) => s!"fam:{f}"
  | some _ => "junk"

def handle : List String → String
  | "rt" :: seed :: evs =>
    match (if seed == "-" then some none else seed.toNat?.map some), evs.mapM parseEv with
    | some sd, some l =>
      let (acc, r) := Toy.run sd l
      let a := String.join (acc.map (fun b => if b then "a" else "r"))
      s!"{if a.isEmpty then "-" else a} | {showRoot r.tree}"
    | _, _ => "bad-op"
  | ["fd", w, f] =>
    match (if w == "cold" then some false else if w == "warm" then some true else none), parseField f with
    | some warm, some fld => if fieldDecision warm fld then "accept" else "reject"
    | _, _ => "bad-op"
  | _ => "bad-op"

def main : IO Unit := mainLoop handle
