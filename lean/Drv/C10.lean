import Tahoe.Base.DrvUtil
import Tahoe.Mutable.Authentic
import Tahoe.Mutable.RetrieveSelect
/-! Driver for C10: `fd <cold|warm> <field>` → `accept` | `reject`: the reader's decision on a single
share in which exactly the named field was altered (field names as in `Tahoe.Authentic.Field`).
`rt <seed family|-> ev…` with ev = o:<shnum>:<fam> | d:<shnum>:<fam>:<id> | t:<shnum>:<fam> | x:<shnum> → `<a|r per event> | <root>`:
one Retrieve's share hash tree (seeded with the root of the given family, or unseeded) fed a sequence
of shares; root = fam:<f> | junk | none.
Shares of a servermap: <shnum>:<server>:<seq>:<root>:<pre>:<offs>:<g|b> (sorted by share number).
`vm <k> share…` → `<best verinfo | ->  | <recoverable verinfos, sorted>` (ServerMap.best_recoverable_version);
`rl <t|f> <k> share…` → `ok:<shnums used>` | `fail` (the Retrieve loop; t = a bad share drops its server, as the code did before /repo 280b4a6);
`rd <t|f> <k> share… / share…` → `<verinfo>` | `fail` (download_best_version: first survey / complete map).
`hf <field>` → `signed=<b> verinfo=<b> map=<rejected|same|new>` (`hf names` lists the fields);
`sc <v|c> <seq>:<root>:<salt>:<datalen>:<offs>:<g|b>…` → e|r per share (map update's signature cache; v = keyed on the whole
verinfo as the code is, c = on seqnum/root/salt; g = the share's signature verifies for its prefix);
`ds <c|f>:<verified salt>:<fetched salt>…` → the salt the segment is decrypted with (readers in activation order; c = cached reader) | `-`;
`ot <c|i> <field>:<offset>…` → the offsets tuple inside verinfo (c = canonical/sorted, i = insertion order). -/
open Tahoe.Drv Tahoe.Authentic

def parseField : String → Option Field
  | "none" => some .none | "version" => some .version | "seqnum" => some .seqnum
  | "root_hash" => some .rootHash | "salt" => some .salt | "kN" => some .kN
  | "segsize" => some .segsize | "datalen" => some .datalen | "pubkey" => some .pubkey
  | "signature" => some .signature | "share_data" => some .shareData
  | "enc_privkey" => some .encPrivkey
  | _ => none

def parseEv (t : String) : Option Toy.Ev :=
  match t.splitOn ":" with
  | ["o", i, f] => do pure (.offer (← i.toNat?) (← f.toNat?))
  | ["d", i, f, id] => do pure (.damaged (← i.toNat?) (← f.toNat?) (← id.toNat?))
  | ["x", i] => do pure (.fail (← i.toNat?))
  | ["t", i, f] => do pure (.truncated (← i.toNat?) (← f.toNat?))   -- consistent share whose chain stops below the root
  | _ => none

def showRoot : Option Toy.TH → String
  | none => "none"
  | some (.fam f) => s!"fam:{f}"
  | some _ => "junk"

open Tahoe.RetrSel in
def parseShare (t : String) : Option MShare :=
  match t.splitOn ":" with
  | [a, b, c, d, e, f, g] => do
    let good ← (if g == "g" then some true else if g == "b" then some false else none)
    pure ⟨← a.toNat?, ← b.toNat?, ← c.toNat?, ← d.toNat?, ← e.toNat?, ← f.toNat?, good⟩
  | _ => none

def showVer (v : Tahoe.RetrSel.VerInfo) : String := s!"{v.1},{v.2.1},{v.2.2.1},{v.2.2.2}"

def parseVariant (s : String) : Option Bool := if s == "t" then some true else if s == "f" then some false else none

/-- insertion sort of verinfos in tuple order, duplicates removed (output canonicalisation only) -/
def insertVer (v : Tahoe.RetrSel.VerInfo) : List Tahoe.RetrSel.VerInfo → List Tahoe.RetrSel.VerInfo
  | [] => [v]
  | x :: xs => if v == x then x :: xs else if Tahoe.RetrSel.vlt v x then v :: x :: xs else x :: insertVer v xs

def hfieldName : HField → String
  | .version => "version" | .seqnum => "seqnum" | .rootHash => "root_hash" | .salt => "salt" | .kN => "kN"
  | .segsize => "segsize" | .datalen => "datalen" | .offsets => "offsets" | .pubkey => "pubkey" | .signature => "signature"
  | .shareHashChain => "share_hash_chain" | .blockHashTree => "block_hash_tree" | .shareData => "share_data"
  | .encPrivkey => "enc_privkey"

def handle : List String → String
  | ["hf", "names"] => " ".intercalate (HField.all.map hfieldName)
  | ["hf", name] =>
    match HField.all.find? (fun f => hfieldName f == name) with
    | some f =>
      let o := match mapOutcome f with | .rejected => "rejected" | .sameIdentity => "same" | .newIdentity => "new"
      s!"signed={signedField f} verinfo={inVerinfo f} map={o}"
    | none => "bad-op"
  | "vm" :: k :: shares =>
    match k.toNat?, shares.mapM parseShare with
    | some k, some m =>
      let b := match Tahoe.RetrSel.best k m with | some v => showVer v | none => "-"
      let recs := (m.filter (fun s => Tahoe.RetrSel.recoverable k m s.verinfo)).foldl (fun acc s => insertVer s.verinfo acc) []
      s!"{b} | {if recs.isEmpty then "-" else " ".intercalate (recs.map showVer)}"
    | _, _ => "bad-op"
  | "rl" :: v :: k :: shares =>
    match parseVariant v, k.toNat?, shares.mapM parseShare with
    | some v, some k, some m =>
      match Tahoe.RetrSel.retrieve v k m with
      | .ok used => s!"ok:{if used.isEmpty then "-" else showNatList used}"
      | .fail => "fail"
    | _, _, _ => "bad-op"
  | "sc" :: kv :: shares =>
    let parse (t : String) : Option (SigIn Nat Bool) := match t.splitOn ":" with
      | [a, b, c, d, e, g] => do
        let good ← (if g == "g" then some true else if g == "b" then some false else none)
        pure ⟨{ seqnum := ← a.toNat?, root := ← b.toNat?, salt := ← c.toNat?, k := 1, n := 1, segsize := 1, datalen := ← d.toNat? }, ← e.toNat?, good⟩
      | _ => none
    match shares.mapM parse with
    | some xs =>
      let stepOut {K : Type} [DecidableEq K] (key : Prefix Nat → Nat → K) : String :=
        let (_, out) := xs.foldl (fun (acc : SigCache Nat K × String) x =>
          let st' := gotSignature (fun _ s => s) key acc.1 x
          (st', acc.2 ++ (if st'.entered.length = acc.1.entered.length then "r" else "e"))) ({ valid := [], entered := [] }, "")
        if out.isEmpty then "-" else out
      if kv == "v" then stepOut fullKey else if kv == "c" then stepOut coarseKey else "bad-op"
    | none => "bad-op"
  | "ds" :: readers =>
    let parse (t : String) : Option (ReaderHdr Nat) := match t.splitOn ":" with
      | [c, v, f] => do
        let cached ← (if c == "c" then some true else if c == "f" then some false else none)
        let mk (salt : Nat) : Prefix Nat := { seqnum := 1, root := 0, salt := salt, k := 1, n := 1, segsize := 1, datalen := 1 }
        pure ⟨cached, mk (← v.toNat?), mk (← f.toNat?)⟩
      | _ => none
    match readers.mapM parse with
    | some rs => match decryptSalt rs with
      | some salt => toString salt
      | none => "-"
    | none => "bad-op"
  | "ot" :: c :: entries =>
    let parse (t : String) : Option (Nat × Nat) := match t.splitOn ":" with
      | [a, b] => do pure (← a.toNat?, ← b.toNat?)
      | _ => none
    match (if c == "c" then some true else if c == "i" then some false else none), entries.mapM parse with
    | some canon, some d =>
      let out := Tahoe.RetrSel.offsetsTuple canon d
      if out.isEmpty then "-" else " ".intercalate (out.map (fun p => s!"{p.1}:{p.2}"))
    | _, _ => "bad-op"
  | "rd" :: v :: k :: rest =>
    let first := rest.takeWhile (· != "/")
    let full := (rest.dropWhile (· != "/")).drop 1
    match parseVariant v, k.toNat?, first.mapM parseShare, full.mapM parseShare, rest.contains "/" with
    | some v, some k, some f, some m, true =>
      match Tahoe.RetrSel.read v k f m with
      | some ver => showVer ver
      | none => "fail"
    | _, _, _, _, _ => "bad-op"
  | "rt" :: seed :: evs =>
    match (if seed == "-" then some none else seed.toNat?.map some), evs.mapM parseEv with
    | some sd, some l =>
      let (acc, r) := Toy.run sd l
      let a := String.join (acc.map (fun b => if b then "a" else "r"))
      s!"{if a.isEmpty then "-" else a} | {showRoot r.tree}"
    | _, _ => "bad-op"
  | ["fd", w, f] =>
    match (if w == "cold" then some false else if w == "warm" then some true else none), parseField f with
    | some warm, some fld => if fieldDecision warm fld then "accept" else "reject"
    | _, _ => "bad-op"
  | _ => "bad-op"

def main : IO Unit := mainLoop handle
