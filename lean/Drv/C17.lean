import Tahoe.Base.DrvUtil
import Tahoe.Crypto.Derive
import Tahoe.Crypto.Use
import Tahoe.Crypto.Objects
/-! Driver for C17.  One operation per line; bytes as lowercase hex (`-` = empty).
    pad M | sha256 M | sha256d M | sha1 M | hmacstd K M | netstring S
    th TAG VAL T | tph TAG V1 V2 T | hasher TAG T CHUNK…        (T = `none` or a decimal int)
    f1 <fn> A | f2 <fn> A B                                     (hashutil function names)
    convtag K N SEG CONV | conv K N SEG DATA CONV | hmac TAG DATA | permute PSI SEED
    wcap WK | rcap RK | chk KEY | renew SECRET SI SEED | cancel SECRET SI SEED | dirkey WK RWURI | mutkeys PUB PRIV
    trackers ALLOC FRS FCS SRV… | uptrackers SECRET SI TOTAL ALLOC SRV… | pubwriters SECRET WK SRV/SHNUM… |
    nodehist SECRET WK (i:WK | w:SRV | r:SRV | c:SRV)… | chkhist SECRET SI (r:SEED | c:SEED)…   → answers joined by `,`
    nativeserver foolscap|http SERVERID TUBID SEED|none PUBKEY|none  → permutationSeed:tubid:leaseSeed:weSeed
    mutaddlease SECRET WK SRV | chkaddlease SECRET SI SRV      (SRV = serverid/leaseSeed/weSeed/maxImmutableShareSize)
    Output: hex fields joined by `:`; `AssertionError` / `ValueError` for the modelled exceptions. -/
open Tahoe.Drv Tahoe.Crypto.Derive Tahoe.Base.Sha256 Tahoe.Base.NetstringEnc Tahoe.Crypto.Use Tahoe.Crypto.Objects

def parseTrunc (s : String) : Option (Option Int) :=
  if s == "none" then some none else s.toInt?.map some

def showOpt (e : String) : Option Bytes → String
  | some b => hexOfBytes b
  | none => e

def f1 (name : String) (a : Bytes) : Option String :=
  match name with
  | "storage_index_hash" => some (hexOfBytes (storageIndexHash a))
  | "block_hash" => some (hexOfBytes (blockHash a))
  | "uri_extension_hash" => some (hexOfBytes (uriExtensionHash a))
  | "plaintext_hash" => some (hexOfBytes (plaintextHash a))
  | "crypttext_hash" => some (hexOfBytes (crypttextHash a))
  | "crypttext_segment_hash" => some (hexOfBytes (crypttextSegmentHash a))
  | "plaintext_segment_hash" => some (hexOfBytes (plaintextSegmentHash a))
  | "backupdb_dirhash" => some (hexOfBytes (backupdbDirhash a))
  | "my_renewal_secret_hash" => some (hexOfBytes (myRenewalSecretHash a))
  | "my_cancel_secret_hash" => some (hexOfBytes (myCancelSecretHash a))
  | "ssk_writekey_hash" => some (hexOfBytes (sskWritekeyHash a))
  | "ssk_write_enabler_master_hash" => some (hexOfBytes (sskWriteEnablerMasterHash a))
  | "ssk_pubkey_fingerprint_hash" => some (hexOfBytes (sskPubkeyFingerprintHash a))
  | "ssk_readkey_hash" => some (hexOfBytes (sskReadkeyHash a))
  | "ssk_storage_index_hash" => some (hexOfBytes (sskStorageIndexHash a))
  | "mutable_rwcap_salt_hash" => some (hexOfBytes (mutableRwcapSaltHash a))
  | _ => none

def f2 (name : String) (a b : Bytes) : Option String :=
  match name with
  | "file_renewal_secret_hash" => some (hexOfBytes (fileRenewalSecretHash a b))
  | "file_cancel_secret_hash" => some (hexOfBytes (fileCancelSecretHash a b))
  | "bucket_renewal_secret_hash" => some (showOpt "AssertionError" (bucketRenewalSecretHash a b))
  | "bucket_cancel_secret_hash" => some (showOpt "AssertionError" (bucketCancelSecretHash a b))
  | "ssk_write_enabler_hash" => some (showOpt "AssertionError" (sskWriteEnablerHash a b))
  | "ssk_readkey_data_hash" => some (hexOfBytes (sskReadkeyDataHash a b))
  | "mutable_rwcap_key_hash" => some (hexOfBytes (mutableRwcapKeyHash a b))
  | _ => none

def parseServer (t : String) : Option Server :=
  match t.splitOn "/" with
  | [sid, lease, we, mx] => do pure ⟨← bytesOfHex sid, ← bytesOfHex lease, ← bytesOfHex we, ← mx.toNat?⟩
  | _ => none

def parseGoal (t : String) : Option (Server × Nat) :=
  match t.splitOn "/" with
  | [sid, lease, we, mx, sh] => do pure (⟨← bytesOfHex sid, ← bytesOfHex lease, ← bytesOfHex we, ← mx.toNat?⟩, ← sh.toNat?)
  | _ => none

def showTrackers (ts : List Tracker) : String :=
  if ts.isEmpty then "-" else
  ",".intercalate (ts.map (fun t => s!"{hexOfBytes t.server.serverid}={hexOfBytes t.renew}={hexOfBytes t.cancel}"))

def showRW : Option (List Tracker × List Tracker) → String
  | none => "AssertionError"
  | some (ro, wr) => s!"W {showTrackers wr};R {showTrackers ro}"

def showLeaseMsg : Option LeaseMsg → String
  | none => "AssertionError"
  | some m => s!"{hexOfBytes m.storageIndex}:{hexOfBytes m.renew}:{hexOfBytes m.cancel}"

def showWriters : Option (List Writer) → String
  | none => "AssertionError"
  | some ws => if ws.isEmpty then "-" else
    ",".intercalate (ws.map (fun w =>
      s!"{w.shnum}={hexOfBytes w.server.serverid}={hexOfBytes w.storageIndex}={hexOfBytes w.we}={hexOfBytes w.renew}={hexOfBytes w.cancel}"))

def parseNodeOp (t : String) : Option NodeOp :=
  match t.splitOn ":" with
  | ["i", wk] => do pure (.initFromCap (← bytesOfHex wk))
  | ["w", srv] => do pure (.getWriteEnabler (← parseServer srv))
  | ["r", srv] => do pure (.getRenewalSecret (← parseServer srv))
  | ["c", srv] => do pure (.getCancelSecret (← parseServer srv))
  | _ => none

def parseCheckerOp (t : String) : Option CheckerOp :=
  match t.splitOn ":" with
  | ["r", seed] => do pure (.getRenewalSecret (← bytesOfHex seed))
  | ["c", seed] => do pure (.getCancelSecret (← bytesOfHex seed))
  | _ => none

def showAnswers (l : List Ans) : String :=
  if l.isEmpty then "-" else ",".intercalate (l.map (showOpt "AssertionError"))

def handleOpt : List String → Option String
  | ["sha256", m] => do pure (hexOfBytes (sha256 (← bytesOfHex m)))
  | ["pad", m] => do pure (hexOfBytes (pad (← bytesOfHex m)))
  | ["sha256d", m] => do pure (hexOfBytes (sha256d (← bytesOfHex m)))
  | ["sha1", m] => do pure (hexOfBytes (sha1 (← bytesOfHex m)))
  | ["hmacstd", k, m] => do pure (hexOfBytes (hmacSha256 (← bytesOfHex k) (← bytesOfHex m)))
  | ["netstring", s] => do pure (hexOfBytes (netstring (← bytesOfHex s)))
  | ["th", tag, v, t] => do
      pure (hexOfBytes (taggedHash (← bytesOfHex tag) (← bytesOfHex v) (← parseTrunc t)))
  | ["tph", tag, v1, v2, t] => do
      pure (hexOfBytes (taggedPairHash (← bytesOfHex tag) (← bytesOfHex v1) (← bytesOfHex v2) (← parseTrunc t)))
  | "hasher" :: tag :: t :: chunks => do
      pure (hexOfBytes (hasherDigest (← bytesOfHex tag) (← parseTrunc t) (← chunks.mapM bytesOfHex)))
  | ["f1", name, a] => do f1 name (← bytesOfHex a)
  | ["f2", name, a, b] => do f2 name (← bytesOfHex a) (← bytesOfHex b)
  | ["convtag", k, n, s, c] => do
      pure (showOpt "ValueError" (convergenceHasherTag (← k.toInt?) (← n.toInt?) (← s.toInt?) (← bytesOfHex c)))
  | ["conv", k, n, s, d, c] => do
      pure (showOpt "ValueError"
        (convergenceHash (← k.toInt?) (← n.toInt?) (← s.toInt?) (← bytesOfHex d) (← bytesOfHex c)))
  | ["hmac", t, d] => do pure (hexOfBytes (hmacAsWritten (← bytesOfHex t) (← bytesOfHex d)))
  | ["permute", p, s] => do pure (hexOfBytes (permuteServerHash (← bytesOfHex p) (← bytesOfHex s)))
  | ["wcap", wk] => do
      let w := mkWriteCap (← bytesOfHex wk) []
      let r := w.getReadonly
      pure s!"{hexOfBytes w.readkey}:{hexOfBytes w.storageIndex}:{hexOfBytes r.readkey}:{hexOfBytes r.storageIndex}:{hexOfBytes w.getVerifyCap.storageIndex}:{hexOfBytes r.getVerifyCap.storageIndex}"
  | ["rcap", rk] => do pure (hexOfBytes (mkReadCap (← bytesOfHex rk) []).storageIndex)
  | ["chk", k] => do pure (hexOfBytes (chkStorageIndex (← bytesOfHex k)))
  | ["renew", s, si, seed] => do
      pure (showOpt "AssertionError" (renewalSecretChain (← bytesOfHex s) (← bytesOfHex si) (← bytesOfHex seed)))
  | ["cancel", s, si, seed] => do
      pure (showOpt "AssertionError" (cancelSecretChain (← bytesOfHex s) (← bytesOfHex si) (← bytesOfHex seed)))
  | ["dirkey", wk, u] => do
      let (salt, key) := dirnodeChildKey (← bytesOfHex wk) (← bytesOfHex u)
      pure s!"{hexOfBytes salt}:{hexOfBytes key}"
  | ["dirmac", k, s, c] => do
      pure (hexOfBytes (dirnodeChildMac (← bytesOfHex k) (← bytesOfHex s) (← bytesOfHex c)))
  | ["mutkeys", pub, priv] => do
      let (wk, fp) := deriveMutableKeys (← bytesOfHex pub) (← bytesOfHex priv)
      pure s!"{hexOfBytes wk}:{hexOfBytes fp}"
  | "trackers" :: alloc :: frs :: fcs :: srvs => do
      pure (showRW (createTrackers (← srvs.mapM parseServer) (← alloc.toNat?) (← bytesOfHex frs) (← bytesOfHex fcs)))
  | "uptrackers" :: secret :: si :: total :: alloc :: srvs => do
      pure (showRW (uploadTrackers (← bytesOfHex secret) (← bytesOfHex si) (← srvs.mapM parseServer) (← total.toNat?) (← alloc.toNat?)))
  | "pubwriters" :: secret :: wk :: goal => do
      pure (showWriters (publishWriters (mkMutNode (← bytesOfHex secret) (← bytesOfHex wk)) (← goal.mapM parseGoal)))
  | ["mutaddlease", secret, wk, srv] => do
      pure (showLeaseMsg (mutableAddLease (mkMutNode (← bytesOfHex secret) (← bytesOfHex wk)) (← parseServer srv)))
  | ["chkaddlease", secret, si, srv] => do
      pure (showLeaseMsg (checkerAddLease (← bytesOfHex secret) (← bytesOfHex si) (← parseServer srv)))
  | ["nativeserver", t, sid, tub, seed, pk] => do
      let tr ← (if t == "foolscap" then some Transport.foolscap else if t == "http" then some Transport.http else none)
      let optB (x : String) : Option (Option (List UInt8)) := if x == "none" then some none else (bytesOfHex x).map some
      let n := nativeServer tr ⟨← bytesOfHex sid, ← bytesOfHex tub, ← optB seed, ← optB pk⟩
      pure s!"{hexOfBytes n.permutationSeed}:{hexOfBytes n.tubid}:{hexOfBytes n.leaseSeed}:{hexOfBytes n.weSeed}"
  | "nodehist" :: secret :: wk :: ops => do
      pure (showAnswers ((NodeObj.new (← bytesOfHex secret) (← bytesOfHex wk)).run (← ops.mapM parseNodeOp)).2)
  | "chkhist" :: secret :: si :: ops => do
      pure (showAnswers ((CheckerObj.new (← bytesOfHex secret) (← bytesOfHex si)).run (← ops.mapM parseCheckerOp)).2)
  | _ => none

def handle (toks : List String) : String :=
  match handleOpt toks with
  | some s => s
  | none => "bad-op"

def main : IO Unit := mainLoop handle
