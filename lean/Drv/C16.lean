import Tahoe.Base.DrvUtil
import Tahoe.Uri.Show
/-! Driver for C16.
  `att <rk> <si> <chk> F|D …fields`  attenuation of a cap object; the three hash tables are given by the
        harness as `in=out,in=out` (hex) or `-` (the hashes are abstract in the model):
        -> `ro mut si | RO | V | ROV | VV`   (flags, storage index, get_readonly(), get_verify_cap(),
           get_readonly().get_verify_cap(), get_verify_cap().get_verify_cap(); each cap followed by its to_string)
  `fsf <deep> <hex>`                 -> `<cap> ro=… mut=…`   from_string + is_readonly/is_mutable
  `un <deep> <rw|N> <ro|N>`          -> `err rw ro`          UnknownNode(rw, ro, deep_immutable)
  `spr <deep> <hex>`                 -> hex                  strip_prefix_for_ro
  `cfc <deep> <w|N> <r|N>`           -> `K <node kind> ro mut` | `U err rw ro`   NodeMaker.create_from_cap (fresh)
  `slot <deep> <w|N> <r|N> <rk>`      -> `REFUSED e` | `NOTPACKABLE` | `STORED hex -> <reader node> auth=…`   set_uri+pack ro slot, reader
  `unp <dirkind> <ro hex> <0|1>`      -> `VALUEERROR` | `DROPPED` | `CRASH` | `CHILD <node> auth=…`   _unpack_contents of one entry
  `hist c:<deep>:<w|N>:<r|N> …`      -> results joined by `;`   a history of create_from_cap on one NodeMaker -/
open Tahoe.Drv Tahoe.Uri

abbrev B := Tahoe.Uri.Bytes

def parseTable (s : String) : Option (List (B × B)) :=
  if s == "-" then some [] else
  (s.splitOn ",").mapM (fun p => match p.splitOn "=" with
    | [a, b] => do pure ((← bytesOfHex a), (← bytesOfHex b))
    | _ => none)

def lookup (t : List (B × B)) (x : B) : Option B := (t.find? (fun p => p.1 == x)).map (·.2)

/-- all hash inputs the attenuation of `f` needs are in the tables -/
def tablesCover (rk si chk : List (B × B)) : FileCap → Bool
  | .ssk w _ | .mdmf w _ => match lookup rk w with
    | some r => (lookup si r).isSome
    | none => false
  | .sskRo r _ | .mdmfRo r _ => (lookup si r).isSome
  | .chk key .. => (lookup chk key).isSome
  | _ => true

def showTs (c : Cap) : String :=
  match c.toString with
  | some b => hexOfBytes b
  | none => "ASSERT"

def showOptCap : Option Cap → String
  | none => "None"
  | some c => s!"{showCap c} {showTs c}"

def nodeKindName : NodeKind → String
  | .literal => "Literal" | .immutable => "Immutable" | .immutableVerifier => "ImmutableVerifier"
  | .mutableFile => "Mutable" | .dirnode k => "Dir(" ++ nodeKindName k ++ ")"

def showAuth : Authority → String
  | .opaque => "O" | .verify => "V" | .read => "R" | .write => "W"

def showOptAuth : Option Authority → String
  | none => "-" | some a => showAuth a

def showUnknownNode (n : UnknownNode) : String :=
  s!"{showErr n.error} {showOptBytes n.rw} {showOptBytes n.ro}"

def handle : List String → String
  | "att" :: rk :: si :: chk :: rest =>
    match parseTable rk, parseTable si, parseTable chk, parseCap rest with
    | some trk, some tsi, some tchk, some c =>
      match c.inner with
      | some f =>
        if tablesCover trk tsi tchk f then
          let H : Hashes := ⟨fun x => (lookup trk x).getD [], fun x => (lookup tsi x).getD [], fun x => (lookup tchk x).getD []⟩
          let ro := c.getReadonly H
          let v := c.getVerifyCap H
          s!"{showOptBool c.isReadonly} {showOptBool c.isMutable} {showOptBytes (c.storageIndex H)} | {showOptCap ro} | {showOptCap v} | {showOptCap (ro.bind (·.getVerifyCap H))} | {showOptCap (v.bind (·.getVerifyCap H))} | auth={showAuth c.authority}{showOptAuth (ro.map Cap.authority)}{showOptAuth (v.map Cap.authority)}"
        else "bad-op missing hash table entry"
      | none => "bad-op"
    | _, _, _, _ => "bad-op"
  | ["fsf", d, u] =>
    match parseBool d, bytesOfHex u with
    | some deep, some ub =>
      let c := fromString deep ub
      s!"{showCap c} ro={showOptBool c.isReadonly} mut={showOptBool c.isMutable}"
    | _, _ => "bad-op"
  | ["un", d, rw, ro] =>
    match parseBool d, parseOptBytes rw, parseOptBytes ro with
    | some deep, some w, some r => showUnknownNode (mkUnknownNode w r deep)
    | _, _, _ => "bad-op"
  | ["spr", d, u] =>
    match parseBool d, bytesOfHex u with
    | some deep, some ub => hexOfBytes (stripPrefixForRo ub deep)
    | _, _ => "bad-op"
  | ["cfc", d, w, r] =>
    match parseBool d, parseOptBytes w, parseOptBytes r with
    | some deep, some wc, some rc =>
      match createFromCap wc rc deep with
      | .known k cap =>
        match (Node.known k cap).flags with
        | some (ro, mu) =>
          -- CiphertextFileNode (the verify-cap node) has is_mutable() but no is_readonly(): shown as `-`
          let roS := if k == .immutableVerifier then "-" else showOptBool (some ro)
          s!"K {nodeKindName k} {roS} {showOptBool (some mu)}"
        | none => "bad-op"
      | .unknown n => s!"U {showUnknownNode n}"
    | _, _, _ => "bad-op"
  | _ => "bad-op"

/-- `c:<deep>:<w|N>:<r|N>` -/
def parseCall (t : String) : Option NmOp :=
  match t.splitOn ":" with
  | ["c", d, w, r] => do pure (.call (← parseOptBytes w) (← parseOptBytes r) (← parseBool d))
  | _ => none

def showNode : Node → String
  | .known k cap =>
    match (Node.known k cap).flags with
    | some (ro, mu) =>
      let roS := if k == .immutableVerifier then "-" else showOptBool (some ro)
      s!"K {nodeKindName k} {roS} {showOptBool (some mu)}"
    | none => "K?"
  | .unknown n => s!"U {showUnknownNode n}"

/-- `hist c:… c:…`: a history of create_from_cap calls on ONE NodeMaker (cache kept, nothing collected) -/
def handleHist (toks : List String) : String :=
  match toks.mapM parseCall with
  | some ops => ";".intercalate ((runHistory [] ops).map showNode)
  | none => "bad-op"

/-- `slot <deep> <w|N> <r|N> <rk>`: what set_uri + pack store in the cleartext ro slot for this child, and the
node (with its authority) a reader of the directory builds from it -/
def handleSlot : List String → String
  | [d, w, r, rk] =>
    match parseBool d, parseOptBytes w, parseOptBytes r, parseTable rk with
    | some deep, some wc, some rc, some trk =>
      -- the only hash the route needs is readkey(writekey) of a known write cap child
      let need : Option B := match createFromCap wc rc deep with
        | .known _ cap => cap.inner.bind FileCap.writeKey
        | .unknown _ => none
      if need.all (fun x => (lookup trk x).isSome) then
        let H : Hashes := ⟨fun x => (lookup trk x).getD [], fun _ => [], fun _ => []⟩
        match packRo H wc rc deep with
        | .refused e => s!"REFUSED {showErr (some e)}"
        | .notPackable => "NOTPACKABLE"
        | .stored st => let n := readerNode st deep; s!"STORED {hexOfBytes st} -> {showNode n} auth={showAuth n.authority}"
      else "bad-op missing hash table entry"
    | _, _, _, _ => "bad-op"
  | _ => "bad-op"

/-- `unp <SSKRO|MDMFRO|CHK|LIT> <ro hex> <0|1>`: one directory entry read by `_unpack_contents` (no write key) -/
def handleUnp : List String → String
  | [k, ro, rw] =>
    match kindOfName k, bytesOfHex ro, parseBool rw with
    | some dk, some roB, some rwNonEmpty =>
      if dk == .sskRo || dk == .mdmfRo || dk == .chk || dk == .lit then
        match unpackChild dk roB rwNonEmpty with
        | .valueError => "VALUEERROR"
        | .dropped => "DROPPED"
        | .crash => "CRASH"
        | .child n => s!"CHILD {showNode n} auth={showAuth n.authority}"
      else "bad-op"
    | _, _, _ => "bad-op"
  | _ => "bad-op"

def handleAll : List String → String
  | "hist" :: toks => handleHist toks
  | "unp" :: toks => handleUnp toks
  | "slot" :: toks => handleSlot toks
  | toks => handle toks

def main : IO Unit := mainLoop handleAll
