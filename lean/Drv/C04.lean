import Tahoe.Base.DrvUtil
import Tahoe.Immutable.Pipeline
import Tahoe.Immutable.Examples
import Tahoe.Immutable.NodeQueue
/-! Driver for C04 (random-access reads).
    `read K MAXSEG DEFMAX KNOWN OFF SIZE KSHEX PTHEX` (SIZE = N for None, KNOWN ∈ 0|1)
         → `segnum:len,segnum:r,…;PLAINTEXTHEX` — one entry per get_segment call (`r` = answer unusable, retried),
           then what the consumer received; the file is uploaded in the model with a systematic K-of-K code and
           ciphertext = PT xor KS
    `plan SIZE K SEGSIZE GUESS KNOWN OFF RSIZE` → the same event list computed on a file of zero bytes (sizes only; big files)
    `lit HEX OFF SIZE`          → LiteralFileNode.read
    `ctr OFF KSHEX CTHEX`       → DecryptingConsumer(·, key, OFF).write(CT), KS = keystream from position 0
    `clip FILESIZE OFF SIZE`    → the clipped size of DownloadNode.read
    `feedall SEG CTHEX OFF+SIZE,… I:S,…` → m readers started for the ranges, handed segment S (of ciphertext CT, segment size SEG)
                                  in the order of the events (reader I gets segment S): final `offset,size,OUTHEX` per reader, `;`-joined
    `queue OP OP …` (g:SEGNUM:HANDLE | d | c:HANDLE) → after each op `ACTIVE|seg.handle,…|delivered handles`, joined by `;` -/
open Tahoe.Drv Tahoe.Immutable Tahoe.Immutable.Sizes Tahoe.Immutable.Pipeline

def parseSize (s : String) : Option (Option Nat) :=
  if s == "N" then some none else s.toNat?.map some

def showEvents (evs : List (Nat × Option (List UInt8))) : String :=
  if evs.isEmpty then "-" else
  ",".intercalate (evs.map (fun ev => match ev.2 with
    | none => s!"{ev.1}:r"
    | some ch => s!"{ev.1}:{ch.length}"))

open Tahoe.Immutable.NodeQueue in
def showNode (nd : Node) (delivered : List Nat) : String :=
  let a := match nd.active with | none => "N" | some s => toString s
  let rs := if nd.requests.isEmpty then "-" else ",".intercalate (nd.requests.map (fun r => s!"{r.segnum}.{r.handle}"))
  let ds := if delivered.isEmpty then "-" else showNatList delivered
  s!"{a}|{rs}|{ds}"

open Tahoe.Immutable.NodeQueue in
def runQueue (nd : Node) (acc : List String) : List String → Option (List String)
  | [] => some acc.reverse
  | op :: rest =>
    match op.splitOn ":" with
    | ["g", s, h] => do
        let nd' := getSegment nd (← s.toNat?) (← h.toNat?)
        runQueue nd' (showNode nd' [] :: acc) rest
    | ["d"] =>
        let r := deliver nd
        runQueue r.2 (showNode r.2 r.1 :: acc) rest
    | ["c", h] => do
        let nd' := cancel nd (← h.toNat?)
        runQueue nd' (showNode nd' [] :: acc) rest
    | _ => none

def parsePairs (s : String) (sep : String) : Option (List (Nat × Nat)) :=
  if s == "-" then some [] else
  (s.splitOn ",").mapM (fun p => match p.splitOn sep with
    | [a, b] => do pure ((← a.toNat?), (← b.toNat?))
    | _ => none)

def handle : List String → String
  | ["feedall", seg, cthex, ranges, events] =>
    match seg.toNat?, bytesOfHex cthex, parsePairs ranges "+", parsePairs events ":" with
    | some seg, some ct, some ranges, some events =>
      let start := ranges.map (fun r => ({ offset := r.1, size := r.2, out := [] } : ReaderState))
      ";".intercalate ((feedAll ct seg start events).map (fun st => s!"{st.offset},{st.size},{hexOfBytes st.out}"))
    | _, _, _, _ => "bad-op"
  | "queue" :: ops =>
    match runQueue NodeQueue.empty [] ops with
    | some outs => ";".intercalate outs
    | none => "bad-op"
  | ["read", k, maxSeg, defMax, known, off, size, kshex, pthex] =>
    match k.toNat?, maxSeg.toNat?, defMax.toNat?, known.toNat?, off.toNat?, parseSize size, bytesOfHex kshex, bytesOfHex pthex with
    | some k, some maxSeg, some defMax, some known, some off, some size, some ksb, some pt =>
      let ksa := ksb.toArray
      match upload (ksOfArray ksa) sysCodec () pt k k maxSeg with
      | .error e => e.toString
      | .ok u =>
        let pick : Nat → List Nat := fun _ => List.range k
        match readEvents sysCodec u pick defMax (known == 1) off size with
        | .error e => e.toString
        | .ok evs => showEvents evs ++ ";" ++ hexOfBytes (decryptAt (ksOfArray ksa) () off (chunksOf evs).flatten)
    | _, _, _, _, _, _, _, _ => "bad-op"
  | ["plan", fsize, k, seg, guess, known, off, rsize] =>
    match fsize.toNat?, k.toNat?, seg.toNat?, guess.toNat?, known.toNat?, off.toNat?, parseSize rsize with
    | some fsize, some k, some seg, some guess, some known, some off, some rsize =>
      match calculateSizes fsize k seg with
      | .error e => e.toString
      | .ok d =>
        -- a segment oracle that only knows lengths
        let getSeg : Nat → Except Err (Nat × List UInt8) := fun s =>
          if s ≥ d.numSegments then .error .badSegment
          else .ok (s * seg, List.replicate (if s == d.numSegments - 1 then d.tailSegmentSize else seg) 0)
        let sz := clipRead fsize off rsize
        if sz = 0 then "-" else
        match segLoop getSeg seg guess (sz + 2) (known == 1) off sz with
        | .error e => e.toString
        | .ok evs => showEvents evs
    | _, _, _, _, _, _, _ => "bad-op"
  | ["lit", hex, off, size] =>
    match bytesOfHex hex, off.toNat?, parseSize size with
    | some d, some off, some size => hexOfBytes (litRead d off size)
    | _, _, _ => "bad-op"
  | ["ctr", off, kshex, cthex] =>
    match off.toNat?, bytesOfHex kshex, bytesOfHex cthex with
    | some off, some ksb, some ct =>
      let ksa := ksb.toArray
      hexOfBytes (decryptAt (ksOfArray ksa) () off ct)
    | _, _, _ => "bad-op"
  | ["clip", fsize, off, size] =>
    match fsize.toNat?, off.toNat?, parseSize size with
    | some fsize, some off, some size => toString (clipRead fsize off size)
    | _, _, _ => "bad-op"
  | _ => "bad-op"

def main : IO Unit := mainLoop handle
