import Tahoe.Base.DrvUtil
import Tahoe.Config.Parse
/-! Driver for C48.  One call per line:
      dur  SYM…   parse_duration            date SYM…   parse_date
      size SYM…   parse_abbreviated_size    abbr si|bin N   abbreviate_space
      rt   si|bin N   parse_abbreviated_size(abbreviate_space(N))
    SYM: dV (digit with int() value V)  w (whitespace, not newline)  n (newline)  aC (other ASCII char,
    code point C)  S (U+017F)  I (U+0131)  o (anything else);  the empty string is the single token `-`.
    Output: ok:N | none | ValueError | KeyError ; abbr prints the string with ' ' shown as '_'. -/
open Tahoe.Drv Tahoe.Config

def parseSym (t : String) : Option Sym :=
  match t.toList with
  | ['w'] => some .ws
  | ['n'] => some .nl
  | ['S'] => some .longS
  | ['I'] => some .dotlessI
  | ['o'] => some .other
  | 'd' :: r => do
      let v ← (String.ofList r).toNat?
      if h : v < 10 then pure (.dig ⟨v, h⟩) else none
  | 'a' :: r => do
      let c ← (String.ofList r).toNat?
      if c < 128 then pure (.asc c) else none
  | _ => none

def parseSyms : List String → Option (List Sym)
  | ["-"] => some []
  | [] => none
  | ts => ts.mapM parseSym

def showRes {α : Type} (f : α → String) : Res α → String
  | .ok v => "ok:" ++ f v
  | .none => "none"
  | .valueError => "ValueError"
  | .keyError => "KeyError"

def showSym : Sym → String
  | .dig v => toString v.val
  | .ws => "_"
  | .nl => "\\n"
  | .asc c => String.singleton (Char.ofNat c)
  | .longS => "<S>"
  | .dotlessI => "<I>"
  | .other => "<o>"

def parseMode : String → Option Bool
  | "si" => some true
  | "bin" => some false
  | _ => none

def handle : List String → String
  | "dur" :: ts => match parseSyms ts with
    | some s => showRes toString (parseDuration s)
    | none => "bad-op"
  | "date" :: ts => match parseSyms ts with
    | some s => showRes toString (parseDate s)
    | none => "bad-op"
  | "size" :: ts => match parseSyms ts with
    | some s => showRes toString (parseSize s)
    | none => "bad-op"
  | ["abbr", m, n] => match parseMode m, n.toNat? with
    | some si, some k => String.join ((abbreviateSpace si k).map showSym)
    | _, _ => "bad-op"
  | ["rt", m, n] => match parseMode m, n.toNat? with
    | some si, some k => showRes toString (parseSize (abbreviateSpace si k))
    | _, _ => "bad-op"
  | _ => "bad-op"

def main : IO Unit := mainLoop handle
