import Tahoe.Base.DrvUtil
import Tahoe.Config.Parse
import Tahoe.Config.Glue
/-! Driver for C48.  One call per line:
      dur  SYM…   parse_duration            date SYM…   parse_date
      size SYM…   parse_abbreviated_size    abbr si|bin N   abbreviate_space
      rt   si|bin N   parse_abbreviated_size(abbreviate_space(N))
    SYM: dV (digit with int() value V)  w (whitespace, not newline)  n (newline)  aC (other ASCII char,
    code point C)  S (U+017F)  I (U+0131)  o (anything else);  the empty string is the single token `-`.
    Output: ok:N | none | ValueError | KeyError ; abbr prints the string with ' ' shown as '_'.
      glue ro=B rs=V dd=B en=B mode=M old=V cut=V imm=B mut=B   the [storage] section through the client.py glue
        B, M, V: ~(absent) -(empty) or SYM,SYM,… — every value as text; booleans go through classifyBool
        (getboolean), the mode through classifyMode, the others through getConfig (strip) to their parser
        → started:<reserved>:<enabled>:<mode>:<override|None>:<cutoff|None>:<imm>:<mut>:<readonly> | ValueError | KeyError | MissingConfigEntry -/
open Tahoe.Drv Tahoe.Config

def parseSym (t : String) : Option Sym :=
  match t.toList with
  | ['w'] => some .ws
  | ['n'] => some .nl
  | ['S'] => some .longS
  | ['I'] => some .dotlessI
  | ['o'] => some .other
  | 'd' :: r => do
      let v ← (String.ofList r).toNat?
      if h : v < 10 then pure (.dig ⟨v, h⟩) else none
  | 'a' :: r => do
      let c ← (String.ofList r).toNat?
      if c < 128 then pure (.asc c) else none
  | _ => none

def parseSyms : List String → Option (List Sym)
  | ["-"] => some []
  | [] => none
  | ts => ts.mapM parseSym

def showRes {α : Type} (f : α → String) : Res α → String
  | .ok v => "ok:" ++ f v
  | .none => "none"
  | .valueError => "ValueError"
  | .keyError => "KeyError"

def showSym : Sym → String
  | .dig v => toString v.val
  | .ws => "_"
  | .nl => "\\n"
  | .asc c => String.singleton (Char.ofNat c)
  | .longS => "<S>"
  | .dotlessI => "<I>"
  | .other => "<o>"

def parseMode : String → Option Bool
  | "si" => some true
  | "bin" => some false
  | _ => none

def parseV (t : String) : Option (Option (List Sym)) :=
  if t == "~" then some none
  else if t == "-" then some (some [])
  else do pure (some (← (t.splitOn ",").mapM parseSym))

def kv (key tok : String) : Option String :=
  match tok.splitOn "=" with
  | [k, v] => if k == key then some v else none
  | _ => none

def showB (b : Bool) : String := if b then "T" else "F"
def showOpt {α : Type} [ToString α] : Option α → String
  | none => "None"
  | some v => toString v

def showStart : Start → String
  | .started s => s!"started:{s.reserved}:{showB s.enabled}:{match s.mode with | .age => "age" | .cutoff => "cutoff" | .other => "other"}:{showOpt s.overrideDuration}:{showOpt s.cutoff}:{showB s.immutable}:{showB s.mutable}:{showB s.readonly}"
  | .error .valueError => "ValueError"
  | .error .keyError => "KeyError"
  | .error .missingEntry => "MissingConfigEntry"

def handleGlue : List String → Option String
  | [ro, rs, dd, en, mode, old, cut, imm, mu] => do
    let c : RawStorageCfg := {
      readonly := ← parseV (← kv "ro" ro), reservedSpace := ← parseV (← kv "rs" rs),
      debugDiscard := ← parseV (← kv "dd" dd), expireEnabled := ← parseV (← kv "en" en),
      expireMode := ← parseV (← kv "mode" mode), overrideLeaseDuration := ← parseV (← kv "old" old),
      cutoffDate := ← parseV (← kv "cut" cut), expireImmutable := ← parseV (← kv "imm" imm),
      expireMutable := ← parseV (← kv "mut" mu) }
    pure (showStart (startStorageRaw c))
  | _ => none

def handle : List String → String
  | "glue" :: ts => (handleGlue ts).getD "bad-op"
  | "dur" :: ts => match parseSyms ts with
    | some s => showRes toString (parseDuration s)
    | none => "bad-op"
  | "date" :: ts => match parseSyms ts with
    | some s => showRes toString (parseDate s)
    | none => "bad-op"
  | "size" :: ts => match parseSyms ts with
    | some s => showRes toString (parseSize s)
    | none => "bad-op"
  | ["abbr", m, n] => match parseMode m, n.toNat? with
    | some si, some k => String.join ((abbreviateSpace si k).map showSym)
    | _, _ => "bad-op"
  | ["rt", m, n] => match parseMode m, n.toNat? with
    | some si, some k => showRes toString (parseSize (abbreviateSpace si k))
    | _, _ => "bad-op"
  | _ => "bad-op"

def main : IO Unit := mainLoop handle
