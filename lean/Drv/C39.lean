import Tahoe.Base.DrvUtil
import Tahoe.Sftp.Consumer
/-! Driver for C39: `c39 <orig-hex> ev ev …` (one whole history per line) where ev ∈
    k:N (download chunk of N bytes)  w:OFF:HEX (overwrite)  s:N (set_current_size)  r:OFF:LEN (read)
    d:1 | d:0 (download_done with bytes | Failure)  f (one eventual-queue turn)  c (close).
    `c39asis` runs the model of the code as it is (`end = end1`), `c39` the repaired one.
    Output: one field per event joined by `;`:
    `<file-hex|closed>|dl,ds,cs|start+end,…|needed,…|done|id=hex,id=eof,id=fail,…`. -/
open Tahoe.Drv Tahoe.Sftp

def parseEv (t : String) : Option Ev :=
  match t.splitOn ":" with
  | ["k", n] => do pure (.chunk (← n.toNat?))
  | ["w", o, h] => do pure (.overwrite (← o.toNat?) (← bytesOfHex h))
  | ["s", n] => do pure (.setSize (← n.toNat?))
  | ["r", o, l] => do pure (.read (← o.toNat?) (← l.toNat?))
  | ["d", "1"] => some (.done true)
  | ["d", "0"] => some (.done false)
  | ["f"] => some .flush
  | ["c"] => some .close
  | _ => none

def dash (l : List String) : String := if l.isEmpty then "-" else ",".intercalate l

def showOut (o : Out) : String :=
  match o.res with
  | .data b => s!"{o.id}={hexOfBytes b}"
  | .eof => s!"{o.id}=eof"
  | .fail => s!"{o.id}=fail"

def showSt (s : St) (outs : List Out) : String :=
  let file := if s.closed then "closed" else hexOfBytes s.f
  let done := match s.done with | .running => "run" | .ok => "ok" | .failed => "failed"
  "|".intercalate [file, s!"{s.dl},{s.ds},{s.cs}",
    dash (s.ow.map (fun p => s!"{p.1}+{p.2}")), dash (s.ms.map (fun r => toString r.needed)),
    done, dash (outs.map showOut)]

def isClientOp : Ev → Bool
  | .overwrite .. | .setSize .. | .read .. => true
  | _ => false

/-- client operations on a closed consumer are outside the model: reject the line -/
def runShow (v : Variant) (orig : Tahoe.Sftp.Bytes) (s : St) (acc : List String) : List Ev → Option (List String)
  | [] => some acc.reverse
  | e :: es =>
    if s.closed && isClientOp e then none
    else
      let r := step v orig s e
      runShow v orig r.1 (showSt r.1 r.2 :: acc) es

def go (v : Variant) (o : String) (evs : List String) : String :=
  match bytesOfHex o, evs.mapM parseEv with
  | some orig, some es =>
    match runShow v orig (init orig) [] es with
    | some outs => if outs.isEmpty then "-" else ";".intercalate outs
    | none => "bad-op"
  | _, _ => "bad-op"

def handle : List String → String
  | "c39" :: o :: evs => go .fixed o evs
  | "c39asis" :: o :: evs => go .asIs o evs
  | _ => "bad-op"

def main : IO Unit := mainLoop handle
