import Tahoe.Base.DrvUtil
import Tahoe.Sftp.Consumer
import Tahoe.Sftp.Handle
/-! Driver for C39: `c39 <orig-hex> ev ev …` (one whole history per line) where ev ∈
    k:N (download chunk of N bytes)  w:OFF:HEX (overwrite)  s:N (set_current_size)  r:OFF:LEN (read)
    d:1 | d:0 (download_done with bytes | Failure)  f (one eventual-queue turn)  c (close).
    `c39asis` runs the model of the code as it is (`end = end1`), `c39` the repaired one.
    Output: one field per event joined by `;`:
    `<file-hex|closed>|dl,ds,cs|start+end,…|needed,…|done|id=hex,id=eof,id=fail,…`. -/
open Tahoe.Drv Tahoe.Sftp

def parseEv (t : String) : Option Ev :=
  match t.splitOn ":" with
  | ["k", n] => do pure (.chunk (← n.toNat?))
  | ["w", o, h] => do pure (.overwrite (← o.toNat?) (← bytesOfHex h))
  | ["s", n] => do pure (.setSize (← n.toNat?))
  | ["r", o, l] => do pure (.read (← o.toNat?) (← l.toNat?))
  | ["d", "1"] => some (.done true)
  | ["d", "0"] => some (.done false)
  | ["f"] => some .flush
  | ["c"] => some .close
  | _ => none

def dash (l : List String) : String := if l.isEmpty then "-" else ",".intercalate l

def showOut (o : Out) : String :=
  match o.res with
  | .data b => s!"{o.id}={hexOfBytes b}"
  | .eof => s!"{o.id}=eof"
  | .fail => s!"{o.id}=fail"

def showSt (s : St) (outs : List Out) : String :=
  let file := if s.closed then "closed" else hexOfBytes s.f
  let done := match s.done with | .running => "run" | .ok => "ok" | .failed => "failed"
  "|".intercalate [file, s!"{s.dl},{s.ds},{s.cs}",
    dash (s.ow.map (fun p => s!"{p.1}+{p.2}")), dash (s.ms.map (fun r => toString r.needed)),
    done, dash (outs.map showOut)]

def isClientOp : Ev → Bool
  | .overwrite .. | .setSize .. | .read .. => true
  | _ => false

/-- client operations on a closed consumer are outside the model: reject the line -/
def runShow (v : Variant) (orig : Tahoe.Sftp.Bytes) (s : St) (acc : List String) : List Ev → Option (List String)
  | [] => some acc.reverse
  | e :: es =>
    if s.closed && isClientOp e then none
    else
      let r := step v orig s e
      runShow v orig r.1 (showSt r.1 r.2 :: acc) es

def go (v : Variant) (o : String) (evs : List String) : String :=
  match bytesOfHex o, evs.mapM parseEv with
  | some orig, some es =>
    match runShow v orig (init orig) [] es with
    | some outs => if outs.isEmpty then "-" else ";".intercalate outs
    | none => "bad-op"
  | _, _ => "bad-op"

/-! `c39h <code|prefix|seede> <orig-hex> ev …` (`code` = the current code, `prefix` = before d9a6762) runs the handle model (`Tahoe/Sftp/Handle.lean`); ev ∈
    W:OFF:HEX (writeChunk request)  S:N (setAttrs size request)  C (close request)  st (the download starts)
    k:N (download chunk)  d:1|d:0 (download_done)  t (the turn in which when_done() fires).
    Output: `<has_changed after each event, one digit each> <pending|ok|failed> <stored-hex | none>`. -/
def parseHEv (t : String) : Option HEv :=
  match t.splitOn ":" with
  | ["W", o, h] => do pure (.write (← o.toNat?) (← bytesOfHex h))
  | ["S", n] => do pure (.setSize (← n.toNat?))
  | ["C"] => some .close
  | ["st"] => some .start
  | ["k", n] => do pure (.chunk (← n.toNat?))
  | ["d", "1"] => some (.done true)
  | ["d", "0"] => some (.done false)
  | ["t"] => some .turn
  | _ => none

def hrunShow (hv : HVariant) (orig : Tahoe.Sftp.Bytes) (h : HSt) (acc : List Char) : List HEv → HSt × List Char
  | [] => (h, acc.reverse)
  | e :: es =>
    let h' := hstep hv orig h e
    hrunShow hv orig h' ((if h'.hasChanged then '1' else '0') :: acc) es

def goH (v o : String) (evs : List String) : String :=
  let hv : Option HVariant := if v == "code" then some .code else if v == "prefix" then some .preFix
    else if v == "seede" then some .seedE else none
  match hv, bytesOfHex o, evs.mapM parseHEv with
  | some hv, some orig, some es =>
    let r := hrunShow hv orig (hinit orig) [] es
    let res := match r.1.res with | .pending => "pending" | .ok => "ok" | .failed => "failed"
    let st := match r.1.stored with | some b => hexOfBytes b | none => "none"
    let flags := if r.2.isEmpty then "-" else String.ofList r.2
    s!"{flags} {res} {st}"
  | _, _, _ => "bad-op"

def handle : List String → String
  | "c39h" :: v :: o :: evs => goH v o evs
  | "c39" :: o :: evs => go .fixed o evs
  | "c39asis" :: o :: evs => go .asIs o evs
  | _ => "bad-op"

def main : IO Unit := mainLoop handle
