import Tahoe.Base.DrvUtil
import Tahoe.Introducer.Model
/-! Driver for C34.  One stream (several `got_announcements` calls on a fresh client) per line:

    intro <subs> <tok>…        subs = `-` or comma-separated service ids subscribed before the stream

  tok  `|` (batch boundary) | `+<service id>` alone in a batch (a `subscribe_to` call at that point) | `G` (not a 3-tuple of bytes/None) | `<msg>:<parsed>/<sig>/<key>`
       msg     Nat id of the message bytes
       parsed  `X` (not UTF-8 / not JSON) | `c<content>.<svc>.<desc>.<seq>`
               svc `U` (ann["service-name"] raises) | `s<id>`;  desc `0` | `1` (description raises)
               seq `A` absent | `i<int>` | `f<floor>` | `P` +inf | `N` -inf | `J` other
       sig     `F` falsy | `P` no v0- prefix | `B` not base32 | `s<k>_<m>` honest | `j<n>` other bytes
       key     `F` | `P` | `B` | `L` wrong length | `k<id>` | `k<id>~<spelling id>` (id = the verifying key the string decodes to)

  Output: per batch `U=<unsign outcome>,…;C=<inbound>.<wrong_service>.<duplicate>.<update>.<new>;D=<key>:<content>,…`
          joined by `|`, then `#S=<svc>.<key>:<content>,…` (the store in dict order). -/
open Tahoe.Drv Tahoe.Introducer Tahoe.GridManager

def parseSeq (s : String) : Option SeqVal :=
  if s == "A" then some .absent else if s == "P" then some .posInf
  else if s == "N" then some .negInf else if s == "J" then some .junk else
  match s.toList with
  | 'i' :: r => (String.ofList r).toInt?.map SeqVal.int
  | 'f' :: r => (String.ofList r).toInt?.map SeqVal.float
  | _ => none

def parseSvc (s : String) : Option Svc :=
  if s == "U" then some .unreadable else
  match s.toList with
  | 's' :: r => (String.ofList r).toNat?.map Svc.name
  | _ => none

def parseAnn (s : String) : Option (Option Ann) :=
  if s == "X" then some none else
  match s.toList with
  | 'c' :: r => match (String.ofList r).splitOn "." with
    | [c, sv, d, q] => do
        let desc ← (if d == "0" then some false else if d == "1" then some true else none)
        pure (some ⟨← c.toNat?, ← parseSvc sv, desc, ← parseSeq q⟩)
    | _ => none
  | _ => none

def parseSigF (s : String) : Option (SigField SymSig) :=
  if s == "F" then some .falsy else if s == "P" then some .noPrefix
  else if s == "B" then some .badB32 else
  match s.toList with
  | 's' :: r => match (String.ofList r).splitOn "_" with
    | [k, m] => do pure (.bytes (SymSig.signed (← k.toNat?) (← m.toNat?)))
    | _ => none
  | 'j' :: r => (String.ofList r).toNat?.map (fun n => .bytes (SymSig.junk n))
  | _ => none

def parseKeyF (s : String) : Option (KeyField Nat) :=
  if s == "F" then some .falsy else if s == "P" then some .noPrefix
  else if s == "B" then some .badB32 else if s == "L" then some .badLen else
  match s.toList with
  | 'k' :: r => (String.ofList r).toNat?.map KeyField.key
  | _ => none

/-- the key token is the *spelling*: `<decoded>` or `<decoded>~<spelling id>`; `decKey` is the
    decoding of a spelling (what `verifying_key_from_string` made of the string) -/
def decKey (sp : String) : KeyField Nat :=
  match parseKeyF ((sp.splitOn "~").headD "") with
  | some k => k
  | none => .badB32

/-- a wire token, with the parse result of its message -/
def parseWire (t : String) : Option (SpelledWire String SymSig Nat × Option (Nat × Option Ann)) :=
  if t == "G" then some (.garbage, none) else
  match t.splitOn "/" with
  | [mp, sg, ky] => match mp.splitOn ":" with
    | [m, p] => do
        let mid ← m.toNat?
        let _ ← parseKeyF ((ky.splitOn "~").headD "")
        pure (.tuple mid (← parseSigF sg) ky, some (mid, ← parseAnn p))
    | _ => none
  | _ => none

def splitBatches (toks : List String) : List (List String) :=
  toks.foldr (fun t acc => if t == "|" then [] :: acc else
    match acc with
    | [] => [[t]]
    | b :: bs => (t :: b) :: bs) [[]]

def showU : Except UErr (Ann × Nat) → String
  | .ok _ => "ok"
  | .error .unknownKey => "unknownKey" | .error .assertion => "assertion" | .error .value => "value"
  | .error .badSignature => "badSignature" | .error .json => "json" | .error .other => "other"

def cnt (os : List Outcome) (p : Outcome → Bool) : Nat := (os.filter p).length

def showList (l : List String) : String := if l.isEmpty then "-" else ",".intercalate l

/-- a batch that is the single token `+<service id>` is a `subscribe_to` call -/
def subscribeTok (b : List String) : Option Nat :=
  match b with
  | [t] => match t.toList with
    | '+' :: r => (String.ofList r).toNat?
    | _ => none
  | _ => none

/-- events through the model's `gotEvents` one at a time (to print the deliveries of each) -/
def runEvents (parse : Nat → Option Ann) :
    List Nat → State Nat → List (Ev Nat SymSig Nat) → List String → State Nat × List String
  | _, st, [], acc => (st, acc.reverse)
  | subs, st, .subscribe svc :: evs, acc =>
    let r := gotEvents symVerify parse subs st [.subscribe svc]
    let d := (r.2.delivered.drop st.delivered.length).map (fun e => s!"{e.1}:{e.2.content}")
    runEvents parse r.1 r.2 evs (s!"U=-;C=0.0.0.0.0;D={showList d}" :: acc)
  | subs, st, .batch b :: evs, acc =>
    let us := b.map (fun w => showU (unsign symVerify parse w))
    let os := batchOutcomes symVerify parse subs st b
    let st' := (gotEvents symVerify parse subs st [.batch b]).2
    let inb := cnt os (fun o => match o with | .skipped _ => false | _ => true)
    let c := s!"{inb}.{cnt os (· == .wrongService)}.{cnt os (· == .duplicate)}.{cnt os (· == .update)}.{cnt os (· == .new)}"
    let d := (st'.delivered.drop st.delivered.length).map (fun e => s!"{e.1}:{e.2.content}")
    runEvents parse subs st' evs (s!"U={showList us};C={c};D={showList d}" :: acc)

def handle : List String → String
  | "intro" :: subsT :: toks =>
    match parseNatList subsT, (splitBatches toks).mapM (fun b =>
        match subscribeTok b with
        | some _ => some []
        | none => b.mapM parseWire) with
    | some subs, some bws =>
      let marks := (splitBatches toks).map subscribeTok
      let table := (bws.flatten.filterMap (·.2))
      let parse : Nat → Option Ann := fun m =>
        match table.find? (fun e => e.1 == m) with
        | some e => e.2
        | none => none
      let evs : List (Ev Nat SymSig Nat) := (bws.zip marks).map (fun bm =>
        match bm.2 with
        | some svc => Ev.subscribe svc
        | none => Ev.batch (bm.1.map (fun x => decodeWire decKey x.1)))
      let (st, outs) := runEvents parse subs ⟨[], []⟩ evs []
      let store := st.store.map (fun e => match e.1.1, e.1.2, e.2 with
        | s, k, a => s!"{s}.{k}:{a.content}")
      "|".intercalate outs ++ "#S=" ++ showList store
    | _, _ => "bad-op"
  | _ => "bad-op"

def main : IO Unit := mainLoop handle
