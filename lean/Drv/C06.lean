import Tahoe.Base.DrvUtil
import Tahoe.Immutable.UploadDecision
/-! Driver for C06.
  `up <happy> <pre> <alloc> <phases> <closeEvs>`
     pre      : `sh:p.p,sh:p` | `-`       (share number ↦ server ids)
     alloc    : `sh:p,sh:p`   | `-`       (bucket writers: share number ↦ server id)
     phases   : failing share numbers joined by `.`, phases joined by `/`, a phase without failure or no phase at all is `-`
     closeEvs : `o1,f2`       | `-`
   → `success placed=… sm=… closed=… aborted=…` | `unhappy closed=… aborted=… failed=…`
  `hp <sharemap>` → the happiness value the driver uses (maximum matching, Kuhn's algorithm). -/
open Tahoe.Drv Tahoe.UploadDecision

/-- try to find an augmenting path from share `sh` (Kuhn); state = (visited servers, matchOf : server ↦ share) -/
def tryShare (adj : Nat → List Nat) : Nat → Nat → List Nat × List (Nat × Nat) → Bool × (List Nat × List (Nat × Nat))
  | 0, _, st => (false, st)
  | fuel + 1, sh, st =>
    (adj sh).foldl (fun (acc : Bool × (List Nat × List (Nat × Nat))) p =>
      if acc.1 then acc else
      let (vis, mt) := acc.2
      if p ∈ vis then acc else
      let vis' := p :: vis
      match mt.lookup p with
      | none => (true, (vis', (p, sh) :: mt))
      | some other =>
        let (ok, (vis2, mt2)) := tryShare adj fuel other (vis', mt)
        if ok then (true, (vis2, (p, sh) :: mt2.filter (fun e => e.1 != p))) else (false, (vis2, mt2)))
      (false, st)

def maxMatching (m : Sharemap) : Nat :=
  let adj := fun sh => (m.lookup sh).getD []
  let shares := m.map (·.1)
  let (cnt, _) := shares.foldl (fun (acc : Nat × List (Nat × Nat)) sh =>
    let (ok, (_, mt)) := tryShare adj (shares.length + 1) sh ([], acc.2)
    if ok then (acc.1 + 1, mt) else (acc.1, mt)) (0, [])
  cnt

def parsePeers (t : String) : Option (List Nat) := (t.splitOn ".").mapM String.toNat?

def parseSharemap (t : String) : Option Sharemap :=
  if t == "-" then some [] else
  (t.splitOn ",").mapM (fun e => match e.splitOn ":" with
    | [sh, ps] => do pure ((← sh.toNat?), (← parsePeers ps))
    | _ => none)

def parseAlloc (t : String) : Option (List (Nat × Nat)) :=
  if t == "-" then some [] else
  (t.splitOn ",").mapM (fun e => match e.splitOn ":" with
    | [sh, p] => do pure ((← sh.toNat?), (← p.toNat?))
    | _ => none)

def parsePhases (t : String) : Option (List (List Nat)) :=
  if t == "-" then some [] else
  (t.splitOn "/").mapM (fun ph => if ph == "-" then some [] else (ph.splitOn ".").mapM String.toNat?)

def parseClose (t : String) : Option (List CloseEv) :=
  if t == "-" then some [] else
  (t.splitOn ",").mapM (fun e =>
    if e.startsWith "o" then (e.drop 1).toString.toNat?.map CloseEv.ok
    else if e.startsWith "f" then (e.drop 1).toString.toNat?.map CloseEv.fail
    else none)

def showSm (m : Sharemap) : String :=
  if m.isEmpty then "-" else
  ";".intercalate (m.map (fun (sh, ps) => s!"{sh}:{".".intercalate (ps.map toString)}"))

def nl (l : List Nat) : String := if l.isEmpty then "-" else showNatList l

def sortNat (l : List Nat) : List Nat := l.mergeSort (· ≤ ·)

def sortSm (m : Sharemap) : Sharemap :=
  (m.map (fun (sh, ps) => (sh, sortNat ps))).mergeSort (fun a b => a.1 ≤ b.1)

def handle : List String → String
  | ["up", happy, pre, alloc, phases, cl] =>
    match happy.toNat?, parseSharemap pre, parseAlloc alloc, parsePhases phases, parseClose cl with
    | some h, some p, some a, some ph, some c =>
      let r := upload maxMatching h p a ph c
      match r.outcome with
      | .success placed sm =>
        s!"success placed={nl (sortNat placed)} sm={showSm (sortSm sm)} closed={nl (sortNat r.final.closed)} aborted={nl (sortNat r.final.aborted)}"
      | .unhappy =>
        s!"unhappy closed={nl (sortNat r.final.closed)} aborted={nl (sortNat r.final.aborted.eraseDups)} failed={nl (sortNat r.final.failedEver)}"
    | _, _, _, _, _ => "bad-op"
  | ["hp", sm] => match parseSharemap sm with
    | some m => toString (maxMatching m)
    | none => "bad-op"
  | _ => "bad-op"

def main : IO Unit := mainLoop handle
