import Tahoe.Base.DrvUtil
import Tahoe.Immutable.UploadDecision
import Tahoe.Immutable.UploadSelection
/-! Driver for C06.
  `up <happy> <pre> <alloc> <phases> <closeEvs>`
     pre      : `sh:p.p,sh:p` | `-`       (share number ↦ server ids)
     alloc    : `sh:p,sh:p`   | `-`       (bucket writers: share number ↦ server id)
     phases   : failing share numbers joined by `.`, phases joined by `/`, a phase without failure or no phase at all is `-`
     closeEvs : `o1,f2,w3`    | `-`       (o = close acknowledged, f = remote close failed, w = final flush write failed)
   → `success placed=… sm=… closed=… aborted=… vis=… holes=… ursm=… ursv=… pushed=n preexisting=n`
   | `unhappy closed=… aborted=… failed=… vis=… holes=…` | `assertion`
  `sel <happy> <total> <events> <phases> <closeEvs>`  (server selection over a history of answers, then the upload)
     events   : `g<srv>:<shares>` get_buckets answer | `G<srv>` get_buckets error |
                `a<srv>:<asked>:<alreadygot>:<allocated>` allocate_buckets answer | `A<srv>:<asked>` allocate_buckets error,
                joined by `,`; share lists joined by `.`, empty list `-`; no event at all `-`
   → the `up` line of the selected (pre, alloc) followed by ` selpre=<sharemap> selalloc=<sh:p,…>`
  `hp <sharemap>` → the happiness value the driver uses: `UploadDecision.soh`, i.e. C08's model of
     `servers_of_happiness` (Tahoe.Happiness.serversOfHappiness). -/
open Tahoe.Drv Tahoe.UploadDecision

def parsePeers (t : String) : Option (List Nat) := (t.splitOn ".").mapM String.toNat?

def parseSharemap (t : String) : Option Sharemap :=
  if t == "-" then some [] else
  (t.splitOn ",").mapM (fun e => match e.splitOn ":" with
    | [sh, ps] => do pure ((← sh.toNat?), (← parsePeers ps))
    | _ => none)

def parseAlloc (t : String) : Option (List (Nat × Nat)) :=
  if t == "-" then some [] else
  (t.splitOn ",").mapM (fun e => match e.splitOn ":" with
    | [sh, p] => do pure ((← sh.toNat?), (← p.toNat?))
    | _ => none)

def parsePhases (t : String) : Option (List (List Nat)) :=
  if t == "-" then some [] else
  (t.splitOn "/").mapM (fun ph => if ph == "-" then some [] else (ph.splitOn ".").mapM String.toNat?)

def parseClose (t : String) : Option (List CloseEv) :=
  if t == "-" then some [] else
  (t.splitOn ",").mapM (fun e =>
    if e.startsWith "o" then (e.drop 1).toString.toNat?.map CloseEv.ok
    else if e.startsWith "f" then (e.drop 1).toString.toNat?.map CloseEv.fail
    else if e.startsWith "w" then (e.drop 1).toString.toNat?.map CloseEv.flushFail
    else none)

def showSm (m : Sharemap) : String :=
  if m.isEmpty then "-" else
  ";".intercalate (m.map (fun (sh, ps) => s!"{sh}:{".".intercalate (ps.map toString)}"))

def nl (l : List Nat) : String := if l.isEmpty then "-" else showNatList l

def sortNat (l : List Nat) : List Nat := l.mergeSort (· ≤ ·)

def sortSm (m : Sharemap) : Sharemap :=
  (m.map (fun (sh, ps) => (sh, sortNat ps))).mergeSort (fun a b => a.1 ≤ b.1)

def showUp (r : Result) : String :=
  let vis := s!"vis={nl (sortNat r.final.mayBeVisible)} holes={nl (sortNat r.final.holes.eraseDups)}"
  match r.outcome with
  | .success placed sm =>
    let ur := match r.results with
      | some u => s!"ursm={showSm (sortSm u.sharemap)} ursv={showSm (sortSm u.servermap)} pushed={u.pushed} preexisting={u.preexisting}"
      | none => "ursm=? ursv=? pushed=? preexisting=?"
    s!"success placed={nl (sortNat placed)} sm={showSm (sortSm sm)} closed={nl (sortNat r.final.closed)} aborted={nl (sortNat r.final.aborted)} {vis} {ur}"
  | .unhappy =>
    s!"unhappy closed={nl (sortNat r.final.closed)} aborted={nl (sortNat r.final.aborted.eraseDups)} failed={nl (sortNat r.final.failedEver.eraseDups)} {vis}"
  | .assertion => "assertion"

def parseList (t : String) : Option (List Nat) := if t == "-" then some [] else parsePeers t

def parseSelEv (t : String) : Option SelEv :=
  let body := (t.drop 1).toString
  if t.startsWith "g" then match body.splitOn ":" with
    | [srv, shs] => do pure (.gotBuckets (← srv.toNat?) (← parseList shs))
    | _ => none
  else if t.startsWith "G" then body.toNat?.map SelEv.gotBucketsErr
  else if t.startsWith "a" then match body.splitOn ":" with
    | [srv, asked, ag, al] => do pure (.allocated (← srv.toNat?) (← parseList asked) (← parseList ag) (← parseList al))
    | _ => none
  else if t.startsWith "A" then match body.splitOn ":" with
    | [srv, asked] => do pure (.allocErr (← srv.toNat?) (← parseList asked))
    | _ => none
  else none

def parseSelEvs (t : String) : Option (List SelEv) :=
  if t == "-" then some [] else (t.splitOn ",").mapM parseSelEv

def sortPairs (l : List (Nat × Nat)) : List (Nat × Nat) :=
  l.mergeSort (fun a b => a.1 < b.1 ∨ (a.1 = b.1 ∧ a.2 ≤ b.2))

def showPairs (l : List (Nat × Nat)) : String :=
  if l.isEmpty then "-" else ",".intercalate (l.map (fun (a, b) => s!"{a}:{b}"))

def handle : List String → String
  | ["up", happy, pre, alloc, phases, cl] =>
    match happy.toNat?, parseSharemap pre, parseAlloc alloc, parsePhases phases, parseClose cl with
    | some h, some p, some a, some ph, some c => showUp (upload soh h p a ph c)
    | _, _, _, _, _ => "bad-op"
  | ["sel", happy, total, evs, phases, cl] =>
    match happy.toNat?, total.toNat?, parseSelEvs evs, parsePhases phases, parseClose cl with
    | some h, some n, some e, some ph, some c =>
      let st := select n e
      s!"{showUp (selectThenUpload soh h n e ph c)} selpre={showSm (sortSm (preOf st.sel.existing))} selalloc={showPairs (sortPairs (allocOf st))}"
    | _, _, _, _, _ => "bad-op"
  | ["hp", sm] => match parseSharemap sm with
    | some m => toString (soh m)
    | none => "bad-op"
  | _ => "bad-op"

def main : IO Unit := mainLoop handle
