import Tahoe.Base.DrvUtil
import Tahoe.Codec.Model
/-! Driver for C36 (the concrete code is `rs256`). One case per line:

* `math A B`                         → `divCeil,nextMultiple,padSize` (B > 0)
* `sizes D K N`                      → `enc=<share_size>,<last_share_padding>;dec=<chunk>,<num_chunks>,<share_size>` (or `E:<exc>`)
* `codec D K N PIECES IDS`           → `enc=<blocks>;dec=<blocks>`: `CRSEncoder.set_params/encode` on the given input pieces,
                                        `CRSDecoder.set_params/decode` on the produced blocks selected by IDS (in that order)
* `imm F K N S SEGNUM DATA IDS`      → `setup=…;calc=…;enc=…;dec=…` immutable encoder/downloader path for one segment
* `mut SEG0 DL K N SEGNUM DATA IDS`  → `pub=…;ret=…;enc=…;dec=…` mutable publish/retrieve path for one segment
* `zdec K N BLOCKS IDS`              → raw decode of arbitrary (possibly non-genuine) blocks
* `mask N M`                         → the ascending share numbers selected by the low N bits of M
* `matrix K N IDS`                   → `enc=<rows of the n×k encoding matrix>;dec=<rows of the k×k decoding matrix for IDS>;inv=<T|F>`

`imm` and `mut` lines end with `;call=<data_size>,<k>,<n>|<ids>|<blocks>`: the decoder parameters and the two lists
handed to `CRSDecoder.decode` (`none` when the caller raises before calling it).

Blocks: comma-separated lowercase hex, `-` = empty block, `_` = empty list. Ids: comma-separated, `-` = none. -/
open Tahoe.Drv Tahoe.Codec

def showBlocks (bs : List Block) : String :=
  if bs.isEmpty then "_" else ",".intercalate (bs.map hexOfBytes)

def parseBlocks (s : String) : Option (List Block) :=
  if s == "_" then some [] else (s.splitOn ",").mapM bytesOfHex

def showRes {α : Type} (f : α → String) : Except String α → String
  | .ok a => f a
  | .error e => "E:" ++ e

/-- the produced blocks with the requested ids, in the requested order -/
def selectBlocks (blocks : List Block) (ids : List Nat) : Option (List (Nat × Block)) :=
  ids.mapM (fun i => (blocks[i]?).map (fun b => (i, b)))

def showEnc (r : Except String (List Block × List Nat)) : String :=
  showRes (fun p => showBlocks p.1 ++ "/" ++ (if p.2 == List.range p.2.length then toString p.2.length else "ids?")) r

def encP (p : EncParams) : String := s!"{p.dataSize},{p.k},{p.n},{p.shareSize},{p.lastSharePadding}"
def decP (p : DecParams) : String := s!"{p.dataSize},{p.k},{p.n},{p.chunkSize},{p.numChunks},{p.shareSize}"

def showCall : Except String (DecParams × List Block × List Nat) → String
  | .ok (p, shares, ids) => s!"{p.dataSize},{p.k},{p.n}|{if ids.isEmpty then "-" else showNatList ids}|{showBlocks shares}"
  | .error _ => "none"

def doCodec (dsz k n : Nat) (pieces : List Block) (ids : List Nat) : Option String :=
  let encr := (encSetParams dsz k n).bind (fun p => encEncode rs256 p pieces)
  match encr with
  | .error e => some s!"enc=E:{e};dec=skipped"
  | .ok (blocks, _) => do
    let sel ← selectBlocks blocks ids
    let decr := (decSetParams dsz k n).bind (fun p => decDecode rs256 p (sel.map (·.2)) (sel.map (·.1)))
    pure s!"enc={showEnc encr};dec={showRes showBlocks decr}"

def doImm (f k n s segnum : Nat) (data : Block) (ids : List Nat) : Option String :=
  let setup := immEncoderSetup f k n s
  let calcR := calculateSizes f k s
  let setupS := showRes (fun e => s!"{e.numSegments}|{encP e.codec}|{encP e.tailCodec}") setup
  let calcS := showRes (fun z => s!"{z.tailSegmentSize},{z.tailSegmentPadded},{z.numSegments},{z.blockSize},{z.tailBlockSize}") calcR
  match setup, calcR with
  | .ok e, .ok z =>
    let encr := immEncodeSegment rs256 e (segnum + 1 == e.numSegments) data
    match encr with
    | .error err => some s!"setup={setupS};calc={calcS};enc=E:{err};dec=skipped"
    | .ok (blocks, _) => do
      let sel ← selectBlocks blocks ids
      let decr := immDecodeBlocks rs256 k n s z segnum sel
      pure s!"setup={setupS};calc={calcS};enc={showEnc encr};dec={showRes hexOfBytes decr};call={showCall (immCodecCall k n s z segnum sel)}"
  | _, _ => some s!"setup={setupS};calc={calcS};enc=skipped;dec=skipped"

def doMut (seg0 dl k n segnum : Nat) (data : Block) (ids : List Nat) : Option String :=
  let pub := mutPublishSetup seg0 dl k n
  let pubS := showRes (fun e => s!"{e.segSize},{e.numSegments},{e.tailSegSize}|{encP e.fec}|{encP e.tailFec}") pub
  match pub with
  | .error _ => some s!"pub={pubS};ret=skipped;enc=skipped;dec=skipped"
  | .ok e =>
    let ret := mutRetrieveSetup e.segSize dl k n
    let retS := showRes (fun d => s!"{d.numSegments},{d.tailDataSize},{d.tailSegSize}|{decP d.segDecoder}|{decP d.tailDecoder}") ret
    let encr := mutEncodeSegment rs256 e segnum data
    match encr, ret with
    | .ok (blocks, _), .ok d => do
      let sel ← selectBlocks blocks ids
      let decr := mutDecodeBlocks rs256 d segnum sel
      pure s!"pub={pubS};ret={retS};enc={showEnc encr};dec={showRes hexOfBytes decr};call={showCall (mutCodecCall d segnum sel)}"
    | _, _ => some s!"pub={pubS};ret={retS};enc={showEnc encr};dec=skipped"

def handle : List String → String
  | ["math", a, b] =>
    match a.toNat?, b.toNat? with
    | some a, some b => if b = 0 then "bad-op" else s!"{divCeil a b},{nextMultiple a b},{padSize a b}"
    | _, _ => "bad-op"
  | ["sizes", d, k, n] =>
    match d.toNat?, k.toNat?, n.toNat? with
    | some d, some k, some n =>
      let e := showRes (fun p => s!"{p.shareSize},{p.lastSharePadding},{p.blockSize}") (encSetParams d k n)
      let c := showRes (fun p => s!"{p.chunkSize},{p.numChunks},{p.shareSize}") (decSetParams d k n)
      s!"enc={e};dec={c}"
    | _, _, _ => "bad-op"
  | ["codec", d, k, n, pieces, ids] =>
    match d.toNat?, k.toNat?, n.toNat?, parseBlocks pieces, parseNatList ids with
    | some d, some k, some n, some pieces, some ids => (doCodec d k n pieces ids).getD "bad-op"
    | _, _, _, _, _ => "bad-op"
  | ["imm", f, k, n, s, segnum, data, ids] =>
    match f.toNat?, k.toNat?, n.toNat?, s.toNat?, segnum.toNat?, bytesOfHex data, parseNatList ids with
    | some f, some k, some n, some s, some segnum, some data, some ids =>
      (doImm f k n s segnum data ids).getD "bad-op"
    | _, _, _, _, _, _, _ => "bad-op"
  | ["mut", seg0, dl, k, n, segnum, data, ids] =>
    match seg0.toNat?, dl.toNat?, k.toNat?, n.toNat?, segnum.toNat?, bytesOfHex data, parseNatList ids with
    | some seg0, some dl, some k, some n, some segnum, some data, some ids =>
      (doMut seg0 dl k n segnum data ids).getD "bad-op"
    | _, _, _, _, _, _, _ => "bad-op"
  | ["zdec", k, n, blocks, ids] =>
    match k.toNat?, n.toNat?, parseBlocks blocks, parseNatList ids with
    | some k, some n, some blocks, some ids =>
      if blocks.length != k || ids.length != k || ids.any (· ≥ n) || !zfecParamsOk k n then "bad-op"
      else showBlocks ((rs256 k n).dec blocks ids)
    | _, _, _, _ => "bad-op"
  | ["mask", n, m] =>
    match n.toNat?, m.toNat? with
    | some n, some m => let ids := idsOfMask n m; if ids.isEmpty then "-" else showNatList ids
    | _, _ => "bad-op"
  | ["matrix", k, n, ids] =>
    match k.toNat?, n.toNat?, parseNatList ids with
    | some k, some n, some ids =>
      if ids.length != k || ids.any (· ≥ n) || !zfecParamsOk k n then "bad-op"
      else
        let e := encMatrix k n
        let d := decMatrix k ids
        let inv := matMul d (selectRows e ids) k == identityMatrix k
        s!"enc={showBlocks e};dec={showBlocks d};inv={if inv then "T" else "F"}"
    | _, _, _ => "bad-op"
  | _ => "bad-op"

def main : IO Unit := mainLoop handle
