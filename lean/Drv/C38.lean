import Tahoe.Base.DrvUtil
import Tahoe.Base.Netstring
import Tahoe.Base.Base32
import Tahoe.Base.Base62
import Tahoe.Base.Struct
import Tahoe.Codec.Ueb
import Tahoe.Codec.Records
import Tahoe.Codec.Utf8
/-! Driver for C38 (encodings).  One operation per line; bytes as lowercase hex (`-` = empty).
    See `handle` for the operations.  `mode` is `s` (strict / corrected decoders) or `p` (the
    decoders that use Python's `int()` etc. — the code as it is). -/
open Tahoe.Drv hiding Bytes
open Tahoe.Base hiding Bytes
abbrev Bytes := Tahoe.Base.Bytes

def hexList (l : List Bytes) : String :=
  if l.isEmpty then "." else ",".intercalate (l.map hexOfBytes)

def nsErr : Netstring.Err → String
  | .value => "err:value" | .assertion => "err:assertion" | .index => "err:index"

def uebErr : Tahoe.Codec.Ueb.Err → String
  | .value => "err:value" | .assertion => "err:assertion"

def optHex : Option Bytes → String
  | some b => "ok " ++ hexOfBytes b
  | none => "err"

def showVal : Struct.Value → String
  | .int n => s!"i{n}"
  | .bytes b => "b" ++ hexOfBytes b

def parseVal (t : String) : Option Struct.Value :=
  match t.toList with
  | 'i' :: r => (String.ofList r).toInt?.map Struct.Value.int
  | 'b' :: r => (bytesOfHex (String.ofList r)).map Struct.Value.bytes
  | _ => none

def parseUebEntry (t : String) : Option (Bytes × Tahoe.Codec.Ueb.Val) :=
  match t.splitOn ":" with
  | [k, "i", v] => do pure ((← bytesOfHex k), .int (← v.toInt?))
  | [k, "b", v] => do pure ((← bytesOfHex k), .bytes (← bytesOfHex v))
  | _ => none

def showUebEntry (e : Bytes × Tahoe.Codec.Ueb.Val) : String :=
  hexOfBytes e.1 ++ "=" ++ (match e.2 with | .int n => s!"i{n}" | .bytes b => "b" ++ hexOfBytes b)

def showDict (d : Tahoe.Codec.Ueb.Dict) : String :=
  if d.isEmpty then "ok ." else "ok " ++ ",".intercalate ((Tahoe.Codec.Ueb.sortDict d).map showUebEntry)

def showLease (l : Tahoe.Codec.Records.Lease) : String :=
  s!"ok {l.owner} {hexOfBytes l.renew} {hexOfBytes l.cancel} {l.expire} " ++
    (match l.nodeid with | some n => hexOfBytes n | none => "none")

def parseLease (o r c e n : String) : Option Tahoe.Codec.Records.Lease := do
  let nid ← if n == "none" then some none else (bytesOfHex n).map some
  pure ⟨← o.toInt?, ← bytesOfHex r, ← bytesOfHex c, ← e.toInt?, nid⟩

def showOptNat : Option Nat → String
  | some n => toString n
  | none => "x"

open Tahoe.Codec in
def handle : List String → String
  | ["b32enc", x] => match bytesOfHex x with
    | some b => hexOfBytes (Base32.b2a b) | none => "bad-op"
  | ["b32could", slack, x] => match slack.toNat?, bytesOfHex x with
    | some s, some b => if Base32.couldBe s b then "T" else "F" | _, _ => "bad-op"
  | ["b32dec", slack, x] => match slack.toNat?, bytesOfHex x with
    | some s, some b => optHex (Base32.a2b s b) | _, _ => "bad-op"
  | ["b62enc", x] => match bytesOfHex x with
    | some b => hexOfBytes (Base62.b2a b) | none => "bad-op"
  | ["b62dec", "p", x] => match bytesOfHex x with
    | some b => "ok " ++ hexOfBytes (Base62.a2b b) | none => "bad-op"
  | ["b62dec", "s", x] => match bytesOfHex x with
    | some b => optHex (Base62.a2bStrict b) | none => "bad-op"
  | ["b62decl", x, bits] => match bytesOfHex x, bits.toNat? with
    | some b, some n => hexOfBytes (Base62.a2bL b n) | _, _ => "bad-op"
  | ["b62nums", n] => match n.toNat? with
    | some n => s!"{Base62.numChars n} {Base62.numOctets n}" | none => "bad-op"
  | ["ns", x] => match bytesOfHex x with
    | some b => hexOfBytes (Netstring.enc b) | none => "bad-op"
  | ["pyint", x] => match bytesOfHex x with
    | some b => (match Netstring.pyInt b with | some n => s!"ok {n}" | none => "err") | none => "bad-op"
  | ["nssplit", mode, x, n, pos, tr] =>
    let np := if mode == "s" then some Netstring.strictLen else if mode == "p" then some Netstring.pyLen else none
    let trailer : Option (Option Bytes) := if tr == "none" then some none else (bytesOfHex tr).map some
    match np, bytesOfHex x, n.toNat?, pos.toNat?, trailer with
    | some np, some b, some n, some pos, some t =>
      (match Netstring.split np b n pos t with
       | .ok (els, p) => s!"ok {p} {hexList els}"
       | .error e => nsErr e)
    | _, _, _, _, _ => "bad-op"
  | "uebpack" :: entries => match entries.mapM parseUebEntry with
    | some d => optHex (Ueb.pack d) | none => "bad-op"
  | ["uebunpack", mode, x] =>
    let cfg := if mode == "s" then some Ueb.strict else if mode == "p" then some Ueb.asIs else none
    match cfg, bytesOfHex x with
    | some cfg, some b => (match Ueb.unpack cfg b with | .ok d => showDict d | .error e => uebErr e)
    | _, _ => "bad-op"
  | ["utf8ok", x] => match bytesOfHex x with
    | some b => if Ueb.utf8Ok b.length b then "T" else "F" | none => "bad-op"
  | ["utf8enc", cps] => match parseNatList cps with
    | some cs => hexOfBytes (Utf8.encStr cs) | none => "bad-op"
  | "spack" :: fmt :: vals => match Struct.parseFormat fmt.toList, vals.mapM parseVal with
    | some fs, some vs => optHex (Struct.pack fs vs) | _, _ => "bad-op"
  | ["sunpack", fmt, x] => match Struct.parseFormat fmt.toList, bytesOfHex x with
    | some fs, some b => (match Struct.unpack fs b with
      | some vs => "ok " ++ " ".intercalate (vs.map showVal) | none => "err")
    | _, _ => "bad-op"
  | ["scalc", fmt] => match Struct.parseFormat fmt.toList with
    | some fs => toString (Struct.size fs) | none => "bad-op"
  | ["leaseimm", o, r, c, e, n] => match parseLease o r c e n with
    | some l => optHex (Records.toImmutable l) | none => "bad-op"
  | ["leasemut", o, r, c, e, n] => match parseLease o r c e n with
    | some l => optHex (Records.toMutable l) | none => "bad-op"
  | ["leasecycle", fmt, o, r, c, e, n, es] =>
    let isMut := fmt == "mut"
    match parseLease o r c e n, (es.splitOn ",").mapM String.toInt? with
    | some l, some es =>
      (match (if isMut then Records.toMutable l else Records.toImmutable l) with
       | none => "err"
       | some b0 =>
         "ok " ++ ";".intercalate ((some b0 :: Records.renewCycle isMut b0 es).map
           (fun ob => match ob with | some b => hexOfBytes b | none => "err")))
    | _, _ => "bad-op"
  | ["unleaseimm", x] => match bytesOfHex x with
    | some b => (match Records.fromImmutable b with | some l => showLease l | none => "err") | none => "bad-op"
  | ["unleasemut", x] => match bytesOfHex x with
    | some b => (match Records.fromMutable b with | some l => showLease l | none => "err") | none => "bad-op"
  | ["immhdr", v, m] => match v.toInt?, m.toInt? with
    | some v, some m => optHex (Records.immHeader v m) | _, _ => "bad-op"
  | ["rdimmhdr", x] => match bytesOfHex x with
    | some b => (match Records.readImmHeader b with
      | some (v, u, n) => s!"ok {v} {u} {n} " ++ (if Records.immVersionKnown v then "known" else "unknown")
      | none => "err")
    | none => "bad-op"
  | ["immvalid", x] => match bytesOfHex x with
    | some b => (match Records.immIsValidHeader b with | some true => "T" | some false => "F" | none => "err")
    | none => "bad-op"
  | ["muthdr", v, n, w] => match v.toNat?, bytesOfHex n, bytesOfHex w with
    | some v, some n, some w => optHex (Records.mutHeader v n w) | _, _, _ => "bad-op"
  | ["rdmuthdr", x] => match bytesOfHex x with
    | some b =>
      let flds := s!" dl={showOptNat (Records.readDataLength b)} elo={showOptNat (Records.readExtraLeaseOffset b)} nx={showOptNat (Records.readNumExtraLeases b)} schema={showOptNat (Records.mutSchemaOf b)}"
      (match Records.readMutHeader b with
       | .ok (_, n, w, _, _) => s!"ok {hexOfBytes n} {hexOfBytes w}"
       | .error .struct => "err:struct"
       | .error .assertion => "err:assertion") ++ flds
    | none => "bad-op"
  | _ => "bad-op"

def main : IO Unit := mainLoop handle
