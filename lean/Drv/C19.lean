import Tahoe.Base.DrvUtil
import Tahoe.Dir.Pack
/-! Driver for C19 (directory pack / unpack).

  `pack <m|i> <classtable> <normtable> <children>`
      m = mutable directory (writekey, deep_immutable=False); i = immutable (writekey None, deep_immutable=True)
      children = `-` | `namehex~node~mdhex;…` in the order of `childrenx.items()` (names not yet normalized)
      → `ok:<hex of the packed bytes>` | `err:cap` | `err:imm`
  `unpack <mw|mr|i> <classtable> <normtable> <datahex>`
      → `ok:<namehex~node~mdhex;…>` (dict order) | `err`
  `packp <classtable> <normtable> <children>`  the children are the nodes *wrapped* by ProhibitedNode; packs what
      packing sees of the wrappers (`prohibitedView`) for a mutable directory → as `pack`
  `create <deep_immutable 0|1> <classtable> <writecaphex|N> <readcaphex|N>` → node   (create_from_cap)
  classtable = `-` | `caphex=cls,…`, cls = `k<m><w>.<canonhex>.<rohex>` | `tw` | `tm` | `u` | `b`
               (caps that are not listed are unknown caps)
  normtable  = `-` | `rawhex>normhex,…` (identity elsewhere)
  node       = `<U|K>.<rwhex|N>.<rohex|N>.<mutable 0|1>.<err 0|1>`
  The cipher of the driver is the identity between a 16-byte zero salt and a 32-byte zero MAC (the harness
  re-frames the real ciphertexts to that form after decrypting them with the real key). -/
open Tahoe.Drv hiding Bytes
open Tahoe.Dir.Pack
open Tahoe.Dir.Edit (lookup)

def zeros (n : Nat) : Bytes := List.replicate n 0

def parseCls (t : String) : Option CapClass :=
  match t with
  | "tw" => some .testWriteable
  | "tm" => some .testMutable
  | "u" => some .unknown
  | "b" => some .bad
  | _ =>
    match t.splitOn "." with
    | [k, cn, rf] =>
      (match k.toList with
       | ['k', m, w] => do
         let mb ← (if m == '1' then some true else if m == '0' then some false else none)
         let wb ← (if w == '1' then some true else if w == '0' then some false else none)
         pure (CapClass.known mb wb (← bytesOfHex cn) (← bytesOfHex rf))
       | _ => none)
    | _ => none

def parseClassTable (t : String) : Option (List (Bytes × CapClass)) :=
  if t == "-" then some [] else
  (t.splitOn ",").mapM (fun p => match p.splitOn "=" with
    | [c, k] => do pure (← bytesOfHex c, ← parseCls k)
    | _ => none)

def parseNormTable (t : String) : Option (List (Bytes × Bytes)) :=
  if t == "-" then some [] else
  (t.splitOn ",").mapM (fun p => match p.splitOn ">" with
    | [a, b] => do pure (← bytesOfHex a, ← bytesOfHex b)
    | _ => none)

def parseOptBytes (t : String) : Option (Option Bytes) :=
  if t == "N" then some none else (bytesOfHex t).map some

def parseB (t : String) : Option Bool :=
  if t == "1" then some true else if t == "0" then some false else none

def parseNode (t : String) : Option Node :=
  match t.splitOn "." with
  | [u, rw, ro, m, e] => do
    let ub ← (if u == "U" then some true else if u == "K" then some false else none)
    pure ⟨ub, ← parseOptBytes rw, ← parseOptBytes ro, ← parseB m, ← parseB e⟩
  | _ => none

def parseChildren (t : String) : Option (List (Bytes × Node × Bytes)) :=
  if t == "-" then some [] else
  (t.splitOn ";").mapM (fun e => match e.splitOn "~" with
    | [n, nd, md] => do pure (← bytesOfHex n, ← parseNode nd, ← bytesOfHex md)
    | _ => none)

/-- UTF-8 validity (what `bytes.decode("utf-8")` accepts): no overlong forms, no surrogates, ≤ U+10FFFF -/
def validUtf8 : Nat → Bytes → Bool
  | _, [] => true
  | 0, _ => false
  | fuel + 1, b :: rest =>
    let n := b.toNat
    let cont (x : UInt8) : Bool := 128 ≤ x.toNat && x.toNat ≤ 191
    if n < 128 then validUtf8 fuel rest
    else if 194 ≤ n && n ≤ 223 then
      (match rest with
       | c1 :: r => cont c1 && validUtf8 fuel r
       | _ => false)
    else if 224 ≤ n && n ≤ 239 then
      (match rest with
       | c1 :: c2 :: r =>
         cont c1 && cont c2 && (n != 224 || 160 ≤ c1.toNat) && (n != 237 || c1.toNat ≤ 159) && validUtf8 fuel r
       | _ => false)
    else if 240 ≤ n && n ≤ 244 then
      (match rest with
       | c1 :: c2 :: c3 :: r =>
         cont c1 && cont c2 && cont c3 && (n != 240 || 144 ≤ c1.toNat) && (n != 244 || c1.toNat ≤ 143) &&
           validUtf8 fuel r
       | _ => false)
    else false

def mkWorld (cls : List (Bytes × CapClass)) (nt : List (Bytes × Bytes)) : World Bytes Bytes Unit where
  norm := fun x => (lookup x nt).getD x
  encodeName := id
  decodeName := fun b => if validUtf8 b.length b then some b else none
  dumps := id
  loads := some
  encrypt := fun _ m => zeros 16 ++ m ++ zeros 32
  decrypt := fun _ c => (c.drop 16).take (c.length - 48)
  classify := fun c => (lookup c cls).getD .unknown

def showOptBytes : Option Bytes → String
  | none => "N"
  | some b => hexOfBytes b

def showNode (n : Node) : String :=
  (if n.unknown then "U" else "K") ++ "." ++ showOptBytes n.rw ++ "." ++ showOptBytes n.ro ++ "." ++
    (if n.mutableObj then "1" else "0") ++ "." ++ (if n.err then "1" else "0")

def showChildren (l : List (Bytes × Child Bytes)) : String :=
  if l.isEmpty then "-" else
  ";".intercalate (l.map (fun e => hexOfBytes e.1 ++ "~" ++ showNode e.2.node ++ "~" ++ hexOfBytes e.2.metadata))

def handle : List String → String
  | ["packp", ct, nt, ch] =>
    -- children wrapped in ProhibitedNode (blacklisted), packed for a mutable directory
    match parseClassTable ct, parseNormTable nt, parseChildren ch with
    | some cls, some ntab, some children =>
      let W := mkWorld cls ntab
      let wrapped := children.map (fun c => (c.1, prohibitedView c.2.1, c.2.2))
      (match pack W (some ()) false false (sortByName (normalizeChildren W wrapped)) with
       | .ok b => "ok:" ++ hexOfBytes b
       | .error .capError => "err:cap"
       | .error .mustBeDeepImmutable => "err:imm")
    | _, _, _ => "bad-op"
  | ["pack", mode, ct, nt, ch] =>
    match parseClassTable ct, parseNormTable nt, parseChildren ch with
    | some cls, some ntab, some children =>
      let W := mkWorld cls ntab
      let sorted := sortByName (normalizeChildren W children)
      let r := match mode with
        | "m" => some (pack W (some ()) false false sorted)
        | "i" => some (pack W none true false sorted)
        | _ => none
      (match r with
       | some (.ok b) => "ok:" ++ hexOfBytes b
       | some (.error .capError) => "err:cap"
       | some (.error .mustBeDeepImmutable) => "err:imm"
       | none => "bad-op")
    | _, _, _ => "bad-op"
  | ["unpack", mode, ct, nt, data] =>
    match parseClassTable ct, parseNormTable nt, bytesOfHex data with
    | some cls, some ntab, some d =>
      let W := mkWorld cls ntab
      let cx : Option (DirCtx Unit) := match mode with
        | "mw" => some ⟨true, true, some ()⟩
        | "mr" => some ⟨true, false, none⟩
        | "i" => some ⟨false, false, none⟩
        | _ => none
      (match cx with
       | some c =>
         (match unpack W c d with
          | some l => "ok:" ++ showChildren l
          | none => "err")
       | none => "bad-op")
    | _, _, _ => "bad-op"
  | ["create", di, ct, w, r] =>
    match parseB di, parseClassTable ct, parseOptBytes w, parseOptBytes r with
    | some d, some cls, some wc, some rc => showNode (createFromCap (mkWorld cls []).classify wc rc d)
    | _, _, _, _ => "bad-op"
  | _ => "bad-op"

def main : IO Unit := mainLoop handle
