import Tahoe.Base.DrvUtil
import Tahoe.Base.Merkle
/-! Driver for C35 (hashtree.py).  Hashes are symbolic terms in prefix notation without separators:
      a<n>  atom (a leaf / forged value)      e<i>  empty_leaf_hash(i)      z  b"" (falsy)
      P<t><t>  pair_hash(t, t)                n  None (only inside trees)
    Lines:
      idx <len> <parent|lchild|rchild|sibling|needed_for|depth_of> <i>   -> number | list | err
      dfs <len>                                                          -> i:d,i:d,…
      name <len> <first_leaf_num> <i>                                    -> _name_hash(i)
      rup <x>                                                            -> roundup_pow2(x)
      build <leaf,leaf,…|->                                             -> <first_leaf_num> <tree>
      cneeded <numleaves> <leafnum> <0|1>                                -> HashTree.needed_hashes (sorted) | err
      new <numleaves>                                                    -> <first_leaf_num> <tree>
      needed <first> <leafnum> <0|1> <tree>                              -> sorted list | err
      validate <first> <leafnum> <prio> <tree> <genuine tree>              -> <batch i=t,…|-> <outcome>:<tree> | err
           (needed_hashes(leafnum) answered with the genuine values + the genuine leaf, then set_hashes)
      hist <asis|fixed> <numleaves> <call> <call> …   call = <prio>|<hashes>|<leaves>, hashes/leaves = i=t,i=t,… or -
           keys i are Python ints (negative / too large allowed); prio = order in which set.pop() prefers
           indices (comma list or -); outcome `reject` = a negative key was red-dotted (rejected with
           IndexError/BadHashError/NotEnoughHashesError depending on the pop order, rolled back)
           -> per call  <ok|bad|notenough|index|internal|reject>:<tree>  joined by `;` (the tree after the call) -/
open Tahoe.Drv Tahoe.Base.Merkle

/-- parse one term; fuel = remaining input length -/
def parseTerm : Nat → List Char → Option (Sym × List Char)
  | 0, _ => none
  | f + 1, cs =>
    match cs with
    | 'z' :: rest => some (Sym.empty, rest)
    | 'a' :: rest =>
      let ds := rest.takeWhile Char.isDigit
      if ds.isEmpty then none else
      (String.ofList ds).toNat?.map (fun n => (Sym.atom n, rest.dropWhile Char.isDigit))
    | 'e' :: rest =>
      let ds := rest.takeWhile Char.isDigit
      if ds.isEmpty then none else
      (String.ofList ds).toNat?.map (fun n => (Sym.emptyLeaf n, rest.dropWhile Char.isDigit))
    | 'P' :: rest =>
      match parseTerm f rest with
      | none => none
      | some (a, r1) =>
        match parseTerm f r1 with
        | none => none
        | some (b, r2) => some (Sym.pair a b, r2)
    | _ => none

def termOfString (s : String) : Option Sym :=
  match parseTerm (s.length + 1) s.toList with
  | some (t, []) => some t
  | _ => none

def showTerm : Sym → String
  | .atom n => s!"a{n}"
  | .emptyLeaf i => s!"e{i}"
  | .empty => "z"
  | .pair a b => "P" ++ showTerm a ++ showTerm b

def showTree (t : Tree Sym) : String :=
  if t.isEmpty then "-" else ",".intercalate (t.map (fun o => match o with | none => "n" | some h => showTerm h))

def parseTree (s : String) : Option (Tree Sym) :=
  if s == "-" then some [] else
  (s.splitOn ",").mapM (fun x => if x == "n" then some none else (termOfString x).map some)

def parseTerms (s : String) : Option (List Sym) :=
  if s == "-" then some [] else (s.splitOn ",").mapM termOfString

def parseAssoc (s : String) : Option (List (Int × Sym)) :=
  if s == "-" then some [] else
  (s.splitOn ",").mapM (fun x => match x.splitOn "=" with
    | [i, t] => do pure ((← i.toInt?), (← termOfString t))
    | _ => none)

def showOptNat : Option Nat → String
  | none => "err"
  | some n => toString n

def showNats (l : List Nat) : String := if l.isEmpty then "-" else showNatList l

def insertSorted (x : Nat) : List Nat → List Nat
  | [] => [x]
  | y :: ys => if x ≤ y then x :: y :: ys else y :: insertSorted x ys

/-- sorted, duplicates removed (Python sets are printed sorted by the harness) -/
def sortDedup (l : List Nat) : List Nat := (l.foldr insertSorted []).eraseDups

def showOutcome : Outcome → String
  | .ok => "ok" | .badHash => "bad" | .notEnough => "notenough" | .indexError => "index" | .internal => "internal"

/-- `set.pop()` oracle: the first index of `prio` that is in the set -/
def pickOf (prio : List Nat) (this : List Nat) : Nat :=
  ((prio.filter (fun x => this.contains x)).head?).getD (this.headD 0)

def showBatchOutcome : BatchOutcome → String
  | .ok => "ok" | .err o => showOutcome o | .unvalidatable => "reject"

def parseCall (call : String) : Option (Batch Sym) :=
  match call.splitOn "|" with
  | [p, h, l] => do
    let prio ← parseNatList p
    let hs ← parseAssoc h
    let ls ← parseAssoc l
    pure { pick := pickOf prio, hashes := hs, leaves := ls }
  | _ => none

/-- the whole history through the model's `runBatches` -/
def runHist (cfg : Cfg) (first : Nat) (t : Tree Sym) (calls : List String) : Option (List String) := do
  let bs ← calls.mapM parseCall
  pure ((runBatches symOps cfg first t bs).map (fun r => showBatchOutcome r.1 ++ ":" ++ showTree r.2))

def parseBool (s : String) : Option Bool :=
  if s == "0" then some false else if s == "1" then some true else none

def handle : List String → String
  | ["idx", len, op, i] =>
    match len.toNat?, i.toNat? with
    | some len, some i =>
      if op == "parent" then showOptNat (parent? len i)
      else if op == "lchild" then showOptNat (lchild? len i)
      else if op == "rchild" then showOptNat (rchild? len i)
      else if op == "sibling" then showOptNat (sibling? len i)
      else if op == "needed_for" then (match neededFor? len i with | none => "err" | some l => showNats l)
      else if op == "depth_of" then toString (depthOf i)
      else "bad-op"
    | _, _ => "bad-op"
  | ["dfs", len] =>
    match len.toNat? with
    | some len => ",".intercalate ((depthFirst len).map (fun p => s!"{p.1}:{p.2}"))
    | none => "bad-op"
  | ["name", len, first, i] =>
    match len.toNat?, first.toNat?, i.toNat? with
    | some len, some first, some i => nameHash len first i
    | _, _, _ => "bad-op"
  | ["rup", x] => match x.toNat? with | some x => toString (roundupPow2 x) | none => "bad-op"
  | ["build", ls] =>
    match parseTerms ls with
    | some L => s!"{firstLeafNum L.length} {showTree (build symOps L)}"
    | none => "bad-op"
  | ["cneeded", n, leaf, inc] =>
    match n.toNat?, leaf.toNat?, parseBool inc with
    | some n, some leaf, some inc =>
      (match completeNeededHashes? (2 * roundupPow2 n - 1) (firstLeafNum n) leaf inc with
       | none => "err" | some l => showNats (sortDedup l))
    | _, _, _ => "bad-op"
  | ["new", n] =>
    match n.toNat? with
    | some n => s!"{firstLeafNum n} {showTree (newTree Sym n)}"
    | none => "bad-op"
  | ["needed", first, leaf, inc, tree] =>
    match first.toNat?, leaf.toNat?, parseBool inc, parseTree tree with
    | some first, some leaf, some inc, some t =>
      (match neededHashes? t first leaf inc with | none => "err" | some l => showNats (sortDedup l))
    | _, _, _, _ => "bad-op"
  | ["validate", first, leaf, prio, tree, gtree] =>
    match first.toNat?, leaf.toNat?, parseNatList prio, parseTree tree, parseTree gtree with
    | some first, some leaf, some prio, some t, some T =>
      (match validateLeaf symOps Cfg.repaired (pickOf prio) first t T leaf with
       | none => "err"
       | some (batch, o, t') =>
         let b := if batch.isEmpty then "-" else ",".intercalate (batch.map (fun p => s!"{p.1}={showTerm p.2}"))
         s!"{b} {showOutcome o}:{showTree t'}")
    | _, _, _, _, _ => "bad-op"
  | "hist" :: mode :: n :: calls =>
    let cfg? : Option Cfg := if mode == "asis" then some Cfg.asIs else if mode == "fixed" then some Cfg.repaired else none
    match cfg?, n.toNat? with
    | some cfg, some n =>
      (match runHist cfg (firstLeafNum n) (newTree Sym n) calls with
       | some outs => if outs.isEmpty then "-" else ";".intercalate outs
       | none => "bad-op")
    | _, _ => "bad-op"
  | _ => "bad-op"

def main : IO Unit := mainLoop handle
