import Tahoe.Base.DrvUtil
import Tahoe.Storage.DrvCommon
/-! Driver for C24: the shared storage-slot history driver (protocol in Tahoe/Storage/DrvCommon.lean). -/
def main : IO Unit := Tahoe.Drv.mainLoop Tahoe.Storage.Drv.handle
