import Tahoe.Base.DrvUtil
import Tahoe.Storage.Expire
/-! Driver for C26: one bucket per line.
    `gc <enabled 0|1> <mode a:-|a:<override>|c:<cutoff>> <types im-bits e.g. 10> <now> <share>…`
    share = `i:<leases>` or `m:<leases>`, leases = `cancel@expiry,…` or `-`.
    Output: per processed share `raised/present/remaining/wks/numleases` joined by `;`, then
    ` | ` the 24 space-recovered count increments, then ` | raised=<0|1>`. -/
open Tahoe.Drv Tahoe.Storage.Expire

def parseLease (t : String) : Option Lease :=
  match t.splitOn "@" with
  | [c, e] => do pure { cancel := (← c.toNat?), expiry := (← e.toInt?) }
  | _ => none

def parseLeases (t : String) : Option (List Lease) :=
  if t == "-" then some [] else (t.splitOn ",").mapM parseLease

def parseShare (t : String) : Option (ShareType × List Lease) :=
  match t.splitOn ":" with
  | ["i", ls] => do pure (.immutable, (← parseLeases ls))
  | ["m", ls] => do pure (.mutable, (← parseLeases ls))
  | _ => none

def parseMode (t : String) : Option Mode :=
  match t.splitOn ":" with
  | ["a", "-"] => some (.age none)
  | ["a", o] => do pure (.age (some (← o.toInt?)))
  | ["c", d] => do pure (.cutoff (← d.toInt?))
  | _ => none

def parseBit (c : Char) : Option Bool :=
  if c == '1' then some true else if c == '0' then some false else none

def showLeases (ls : List Lease) : String :=
  if ls.isEmpty then "-" else ",".intercalate (ls.map (fun l => s!"{l.cancel}@{l.expiry}"))

def showErr : Option CancelErr → String
  | none => "ok"
  | some .index => "index"
  | some .nofile => "nofile"

def showShare (p : ShareType × ShareResult) : String :=
  let r := p.2
  s!"{showErr r.raised}/{if r.share.present then 1 else 0}/{showLeases r.share.leases}/{r.wks.1}.{r.wks.2.1}.{r.wks.2.2}/{r.numLeases}"

def parseOptBool (t : String) : Option (Option Bool) :=
  if t == "-" then some none else match t.toList with | [c] => (parseBit c).map some | _ => none

def parseOptInt (t : String) : Option (Option Int) :=
  if t == "-" then some none else t.toInt?.map some

def showMode : Mode → String
  | .age none => "age override=None cutoff=None"
  | .age (some o) => s!"age override={o} cutoff=None"
  | .cutoff d => s!"cutoff-date override=None cutoff={d}"

def showTypes (c : Config) : String :=
  let l := (if c.expImmutable then ["immutable"] else []) ++ (if c.expMutable then ["mutable"] else [])
  if l.isEmpty then "-" else ",".intercalate l

/-- `cfg <enabled -|0|1> <mode -|name> <override -|secs> <cutoff -|epoch> <immutable -|0|1> <mutable -|0|1>` -/
def handleCfg : List String → String
  | [en, mode, ov, cut, imm, mu] =>
    match (do
      let s : Settings := { enabled := (← parseOptBool en), mode := (if mode == "-" then none else some mode),
                            overrideDuration := (← parseOptInt ov), cutoffDate := (← parseOptInt cut),
                            immutable := (← parseOptBool imm), mutable := (← parseOptBool mu) }
      pure (match configFromSettings s with
        | .error .missingMode => "error:missing-mode"
        | .error .missingCutoff => "error:missing-cutoff"
        | .error .badMode => "error:bad-mode"
        | .ok c => s!"enabled={if c.enabled then "True" else "False"} mode={showMode c.mode} types={showTypes c}")) with
    | some out => out
    | none => "bad-op"
  | _ => "bad-op"

def handle : List String → String
  | "gc" :: en :: mode :: types :: now :: shares =>
    match (do
      let e ← (match en.toList with | [c] => parseBit c | _ => none)
      let m ← parseMode mode
      let (ti, tm) ← (match types.toList with | [a, b] => do pure ((← parseBit a), (← parseBit b)) | _ => none)
      let n ← now.toInt?
      let sh ← shares.mapM parseShare
      let cfg : Config := { enabled := e, mode := m, expImmutable := ti, expMutable := tm }
      let b := processBucket cfg n sh
      pure (";".intercalate (b.shares.map showShare) ++ " | " ++ showNatList (tally b)
            ++ " | raised=" ++ (if b.raised then "1" else "0"))) with
    | some out => out
    | none => "bad-op"
  | "cfg" :: rest => handleCfg rest
  | _ => "bad-op"

def main : IO Unit := mainLoop handle
