import Tahoe.Base.DrvUtil
import Tahoe.Storage.Expire
import Tahoe.Storage.GcCycle
/-! Driver for C26: one bucket per line.
    `gc <enabled 0|1> <mode a:-|a:<override>|c:<cutoff>> <types im-bits e.g. 10> <now> <share>…`
    share = `i:<leases>` or `m:<leases>`, leases = `cancel@expiry,…` or `-`.
    Output: per processed share `raised/present/remaining/wks/numleases` joined by `;`, then
    ` | ` the 24 space-recovered count increments, then ` | raised=<0|1>`. -/
open Tahoe.Drv Tahoe.Storage.Expire
open Tahoe.Storage.Crawler Tahoe.Storage.GcCycle

def parseLease (t : String) : Option Lease :=
  match t.splitOn "@" with
  | [c, e] => do pure { cancel := (← c.toNat?), expiry := (← e.toInt?) }
  | _ => none

def parseLeases (t : String) : Option (List Lease) :=
  if t == "-" then some [] else (t.splitOn ",").mapM parseLease

def parseShare (t : String) : Option (ShareType × List Lease) :=
  match t.splitOn ":" with
  | ["i", ls] => do pure (.immutable, (← parseLeases ls))
  | ["m", ls] => do pure (.mutable, (← parseLeases ls))
  | _ => none

def parseMode (t : String) : Option Mode :=
  match t.splitOn ":" with
  | ["a", "-"] => some (.age none)
  | ["a", o] => do pure (.age (some (← o.toInt?)))
  | ["c", d] => do pure (.cutoff (← d.toInt?))
  | _ => none

def parseBit (c : Char) : Option Bool :=
  if c == '1' then some true else if c == '0' then some false else none

def showLeases (ls : List Lease) : String :=
  if ls.isEmpty then "-" else ",".intercalate (ls.map (fun l => s!"{l.cancel}@{l.expiry}"))

def showErr : Option CancelErr → String
  | none => "ok"
  | some .index => "index"
  | some .nofile => "nofile"

def showShare (p : ShareType × ShareResult) : String :=
  let r := p.2
  s!"{showErr r.raised}/{if r.share.present then 1 else 0}/{showLeases r.share.leases}/{r.wks.1}.{r.wks.2.1}.{r.wks.2.2}/{r.numLeases}"

def parseOptBool (t : String) : Option (Option Bool) :=
  if t == "-" then some none else match t.toList with | [c] => (parseBit c).map some | _ => none

def parseOptInt (t : String) : Option (Option Int) :=
  if t == "-" then some none else t.toInt?.map some

def showMode : Mode → String
  | .age none => "age override=None cutoff=None"
  | .age (some o) => s!"age override={o} cutoff=None"
  | .cutoff d => s!"cutoff-date override=None cutoff={d}"

def showTypes (c : Config) : String :=
  let l := (if c.expImmutable then ["immutable"] else []) ++ (if c.expMutable then ["mutable"] else [])
  if l.isEmpty then "-" else ",".intercalate l

/-- `cfg <enabled -|0|1> <mode -|name> <override -|secs> <cutoff -|epoch> <immutable -|0|1> <mutable -|0|1>` -/
def handleCfg : List String → String
  | [en, mode, ov, cut, imm, mu] =>
    match (do
      let s : Settings := { enabled := (← parseOptBool en), mode := (if mode == "-" then none else some mode),
                            overrideDuration := (← parseOptInt ov), cutoffDate := (← parseOptInt cut),
                            immutable := (← parseOptBool imm), mutable := (← parseOptBool mu) }
      pure (match configFromSettings s with
        | .error .missingMode => "error:missing-mode"
        | .error .missingCutoff => "error:missing-cutoff"
        | .error .badMode => "error:bad-mode"
        | .ok c => s!"enabled={if c.enabled then "True" else "False"} mode={showMode c.mode} types={showTypes c}")) with
    | some out => out
    | none => "bad-op"
  | _ => "bad-op"

/-! `gcrun <enabled> <mode> <types> <np> <world> <gevent>…` - the crawler driving the expirer over a schedule.
    world = `-` or `;`-separated buckets `<rank>=<share>|<share>`, share = `<shnum>.<i|m>.<leases>`,
    leases = `c@e_c@e` or `-`;  gevent = `<now>~<event>` with the C27 event syntax (`s/<oracle>/<listing>`,
    `k<K>/<oracle>/<listing>`, `r`).  Output per event `<log>/<cur>/<lcf>/<next>/<lcb>#<world>` joined by ` || `. -/

def gcOracle (t : String) : Option (List Bool) := do
  let idx ← parseNatList t
  let n := idx.foldl (fun m x => max m (x + 1)) 0
  pure ((List.range n).map (fun i => idx.contains i))

def gcListing (t : String) : Option (Nat → List Nat) :=
  if t == "-" then some (fun _ => []) else do
    let pairs ← (t.splitOn ",").mapM (fun e => match e.splitOn ":" with
      | [p, bs] => do
          let pi ← p.toNat?
          let l ← (if bs == "" then some [] else (bs.splitOn ".").mapM String.toNat?)
          pure (pi, l)
      | _ => none)
    pure (fun i => match pairs.find? (fun q => q.1 == i) with | some q => q.2 | none => [])

def gcEvent (t : String) : Option Event :=
  match t.splitOn "/" with
  | ["r"] => some .restart
  | ["s", o, l] => do pure (.slice (← gcListing l) (← gcOracle o))
  | [k, o, l] =>
    if k.startsWith "k" then do
      pure (.killed (← gcListing l) (← gcOracle o) (← (k.drop 1).toString.toNat?))
    else none
  | _ => none

def gcGEvent (t : String) : Option GEvent :=
  match t.splitOn "~" with
  | [n, e] => do pure { ev := (← gcEvent e), now := (← n.toInt?) }
  | _ => none

def gcLeases (t : String) : Option (List Lease) :=
  if t == "-" then some [] else (t.splitOn "_").mapM parseLease

def gcShare (t : String) : Option (Nat × ShareType × List Lease) :=
  match t.splitOn "." with
  | [n, "i", ls] => do pure ((← n.toNat?), .immutable, (← gcLeases ls))
  | [n, "m", ls] => do pure ((← n.toNat?), .mutable, (← gcLeases ls))
  | _ => none

def gcWorld (t : String) : Option (List (Nat × Bucket)) :=
  if t == "-" then some [] else
  (t.splitOn ";").mapM (fun e => match e.splitOn "=" with
    | [r, shs] => do
        let bk ← (if shs == "" then some [] else (shs.splitOn "|").mapM gcShare)
        pure ((← r.toNat?), bk)
    | _ => none)

def showGcShare (s : Nat × ShareType × List Lease) : String :=
  let ls := if s.2.2.isEmpty then "-" else "_".intercalate (s.2.2.map (fun l => s!"{l.cancel}@{l.expiry}"))
  s!"{s.1}.{match s.2.1 with | .immutable => "i" | .mutable => "m"}.{ls}"

def showGcWorld (keys : List Nat) (w : World) : String :=
  if keys.isEmpty then "-" else
  ";".intercalate (keys.map (fun k => s!"{k}=" ++ "|".intercalate ((w k).map showGcShare)))

def showGcLog (l : List Entry) : String :=
  if l.isEmpty then "-" else ",".intercalate (l.map (fun e => s!"{e.cycle}.{e.pfx}.{e.bucket}"))

def showGcOpt : Option Nat → String
  | none => "N"
  | some n => toString n

def gcShow (cfg : Config) (np : Nat) (keys : List Nat) : St → World → List GEvent → List String → List String
  | _, _, [], acc => acc.reverse
  | s, w, g :: gs, acc =>
    let r := gcRun cfg np s w [g]
    let p := r.1.p
    gcShow cfg np keys r.1 r.2.1 gs
      (s!"{showGcLog r.2.2}/{showGcOpt p.cur}/{showGcOpt p.lcf}/{p.next}/{showGcOpt p.lcb}#{showGcWorld keys r.2.1}" :: acc)

def handleGc : List String → String
  | en :: mode :: types :: np :: world :: evs =>
    match (do
      let e ← (match en.toList with | [c] => parseBit c | _ => none)
      let m ← parseMode mode
      let (ti, tm) ← (match types.toList with | [a, b] => do pure ((← parseBit a), (← parseBit b)) | _ => none)
      let n ← np.toNat?
      let wl ← gcWorld world
      let gs ← evs.mapM gcGEvent
      let cfg : Config := { enabled := e, mode := m, expImmutable := ti, expMutable := tm }
      let w : World := fun b => match wl.find? (fun q => q.1 == b) with | some q => q.2 | none => []
      pure (" || ".intercalate (gcShow cfg n (wl.map (·.1)) init w gs []))) with
    | some out => out
    | none => "bad-op"
  | _ => "bad-op"

/-- `hist <ages before the save | -> <ages after the reload | ->`: the histogram as JSON after the first ages,
    and after state-file round trip + the second ages.  Ages comma-separated. -/
def showHistJson (l : List (Int × Int × Nat)) : String :=
  if l.isEmpty then "-" else ",".intercalate (l.map (fun t => s!"{t.1}:{t.2.1}:{t.2.2}"))

def parseAges (t : String) : Option (List Int) :=
  if t == "-" then some [] else (t.splitOn ",").mapM String.toInt?

def handleHist : List String → String
  | [a, b] =>
    match (do
      let h1 := (← parseAges a).foldl histAdd []
      let h2 := (← parseAges b).foldl histAdd (histFromJson (histToJson h1))
      pure (showHistJson (histToJson h1) ++ " | " ++ showHistJson (histToJson h2))) with
    | some out => out
    | none => "bad-op"
  | _ => "bad-op"

def handle : List String → String
  | "gc" :: en :: mode :: types :: now :: shares =>
    match (do
      let e ← (match en.toList with | [c] => parseBit c | _ => none)
      let m ← parseMode mode
      let (ti, tm) ← (match types.toList with | [a, b] => do pure ((← parseBit a), (← parseBit b)) | _ => none)
      let n ← now.toInt?
      let sh ← shares.mapM parseShare
      let cfg : Config := { enabled := e, mode := m, expImmutable := ti, expMutable := tm }
      let b := processBucket cfg n sh
      pure (";".intercalate (b.shares.map showShare) ++ " | " ++ showNatList (tally b)
            ++ " | raised=" ++ (if b.raised then "1" else "0"))) with
    | some out => out
    | none => "bad-op"
  | "cfg" :: rest => handleCfg rest
  | "gcrun" :: rest => handleGc rest
  | "hist" :: rest => handleHist rest
  | _ => "bad-op"

def main : IO Unit := mainLoop handle
