import Tahoe.Base.DrvUtil
import Tahoe.Web.Range
/-! Driver for C40: `c40 <size> G|H <range-header as hex of its ASCII bytes | none>`; the file is the
    `size` bytes `i % 251`.  `c40asis` runs the model of the code as it is, `c40` the repaired one.
    Output: `200|-|<content-length>|<body-hex>`, `206|<first>-<last>/<size>|<content-length>|<body-hex>`
    or `416`. -/
open Tahoe.Drv Tahoe.Web

def fileOf (n : Nat) : Tahoe.Web.Bytes := (List.range n).map (fun i => UInt8.ofNat (i % 251))

def strOfHex (h : String) : Option (List Char) := do
  let b ← bytesOfHex h
  if b.all (fun x => x.toNat < 128) then pure (b.map (fun x => Char.ofNat x.toNat)) else none

def showResp (r : Resp) : String :=
  if r.status == 416 then "416" else
  let cr := match r.contentRange with
    | some (a, b, n) => s!"{a}-{b}/{n}"
    | none => "-"
  s!"{r.status}|{cr}|{r.contentLength}|{hexOfBytes r.body}"

def go (v : Variant) (size meth hdr : String) : String :=
  match size.toNat?, (if meth == "G" then some false else if meth == "H" then some true else none),
        (if hdr == "none" then some none else (strOfHex hdr).map some) with
  | some n, some isHead, some h => showResp (render v (fileOf n) isHead h)
  | _, _, _ => "bad-op"

def handle : List String → String
  | ["c40", size, meth, hdr] => go .fixed size meth hdr
  | ["c40asis", size, meth, hdr] => go .asIs size meth hdr
  | _ => "bad-op"

def main : IO Unit := mainLoop handle
