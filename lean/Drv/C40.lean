import Tahoe.Base.DrvUtil
import Tahoe.Web.Range
import Tahoe.Web.Handler
/-! Driver for C40: `c40 <size> G|H <range-header as hex of its ASCII bytes | none>`; the file is the
    `size` bytes `i % 251`.  `c40asis` runs the model of the code as it is, `c40` the repaired one.
    Output: `200|-|<content-length>|<body-hex>`, `206|<first>-<last>/<size>|<content-length>|<body-hex>`
    or `416`.
    `c40h <size> G|H <mutable 0|1> <b32 storage index as hex | none> <If-None-Match as hex | none> <Range as hex | none>`
    runs the model of `FileNodeHandler.render_GET` / `render_HEAD`; output
    `<status>|<etag or ->|<first>-<last>/<size> or -|<content-length or ->|<body-hex>`. -/
open Tahoe.Drv Tahoe.Web

def fileOf (n : Nat) : Tahoe.Web.Bytes := (List.range n).map (fun i => UInt8.ofNat (i % 251))

def strOfHex (h : String) : Option (List Char) := do
  let b ← bytesOfHex h
  if b.all (fun x => x.toNat < 128) then pure (b.map (fun x => Char.ofNat x.toNat)) else none

def showResp (r : Resp) : String :=
  if r.status == 416 then "416" else
  let cr := match r.contentRange with
    | some (a, b, n) => s!"{a}-{b}/{n}"
    | none => "-"
  s!"{r.status}|{cr}|{r.contentLength}|{hexOfBytes r.body}"

def go (v : Variant) (size meth hdr : String) : String :=
  match size.toNat?, (if meth == "G" then some false else if meth == "H" then some true else none),
        (if hdr == "none" then some none else (strOfHex hdr).map some) with
  | some n, some isHead, some h => showResp (renderWith v (fileOf n).length (nodeRead (fileOf n)) isHead h)
  | _, _, _ => "bad-op"

def optStr (h : String) : Option (Option (List Char)) :=
  if h == "none" then some none else (strOfHex h).map some

def showH (r : HResp) : String :=
  let et := match r.etag with | some e => String.ofList e | none => "-"
  let cr := match r.contentRange with
    | some (a, b, n) => s!"{a}-{b}/{n}"
    | none => "-"
  let cl := match r.contentLength with | some c => toString c | none => "-"
  s!"{r.status}|{et}|{cr}|{cl}|{hexOfBytes r.body}"

def goH (size meth mu si inm range : String) : String :=
  match size.toNat?, (if meth == "G" then some false else if meth == "H" then some true else none),
        (if mu == "0" then some false else if mu == "1" then some true else none),
        optStr si, optStr inm, optStr range with
  | some n, some isHead, some m, some s, some i, some r =>
    let node : NodeInfo := ⟨m, s⟩
    showH (if isHead then renderHEAD .fixed node (fileOf n) i r else renderGET .fixed node (fileOf n) i r)
  | _, _, _, _, _, _ => "bad-op"

def handle : List String → String
  | ["c40h", size, meth, mu, si, inm, range] => goH size meth mu si inm range
  | ["c40", size, meth, hdr] => go .fixed size meth hdr
  | ["c40asis", size, meth, hdr] => go .asIs size meth hdr
  | _ => "bad-op"

def main : IO Unit := mainLoop handle
