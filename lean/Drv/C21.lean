import Tahoe.Base.DrvUtil
import Tahoe.Dir.Traverse
/-! Driver for C21 (deep traversal).

  `trav <root> <fuel> <node>;<node>;…`     node = `<id>:<d|f|u>:<verifier|->:<children>`
                                           children = `-` | `name>id,name>id,…` (names: opaque tokens, in
                                           the order of sorted(children.items()))
  → `<events> <done|fuel> <stats>`, events = `A<id>@<path>` (add_node; path = names joined by `/`, `-` if empty)
                                     `E<id>` (enter_directory), separated by `,`;
    stats = `count-directories,count-files,count-literal-files,count-unknown` (the model's `deepStats`).
  `multi <root,root,…> <schedule: index,index,…> <nodes>`  several traversals interleaved by the schedule (`multiRun`)
  → `<events> <done|fuel>|<events> <done|fuel>|…`, one part per traversal. -/
open Tahoe.Drv Tahoe.Dir.Traverse

def parseKind : String → Option Kind
  | "d" => some .dir
  | "f" => some .file
  | "u" => some .unknown
  | _ => none

def parseKids (t : String) : Option (List (String × Nat)) :=
  if t == "-" then some [] else
  (t.splitOn ",").mapM (fun p => match p.splitOn ">" with
    | [n, c] => do pure (n, ← c.toNat?)
    | _ => none)

def parseNodes (t : String) : Option (List (Nat × NodeInfo String)) :=
  (t.splitOn ";").mapM (fun p => match p.splitOn ":" with
    | [i, k, v, ch] => do
      pure (← i.toNat?, ⟨← parseKind k, if v == "-" then none else some v, ← parseKids ch⟩)
    | _ => none)

def graphOf (l : List (Nat × NodeInfo String)) : Graph String :=
  fun n => match l.find? (fun p => p.1 == n) with
    | some (_, info) => info
    | none => ⟨.unknown, none, []⟩

def showPath (p : Path) : String := if p.isEmpty then "-" else "/".intercalate p

def showEvent : Event → String
  | .addNode n p => s!"A{n}@{showPath p}"
  | .enterDir n => s!"E{n}"

def handle : List String → String
  | ["trav", root, fuel, nodes] =>
    match root.toNat?, fuel.toNat?, parseNodes nodes with
    | some r, some f, some l =>
      let res := traverse (graphOf l) r f
      let st := deepStats (graphOf l) res.1
      ",".intercalate (res.1.map showEvent) ++ " " ++ (if res.2 then "done" else "fuel") ++ " " ++
        s!"{st.verifiedDirs + st.literalDirs},{st.verifiedFiles + st.literalFiles},{st.literalFiles},{st.unknown}"
    | _, _, _ => "bad-op"
  | ["multi", roots, sched, nodes] =>
    match parseNatList roots, parseNatList sched, parseNodes nodes with
    | some rs, some sc, some l =>
      let g := graphOf l
      let f := multiRun g sc (fun j => init g (rs.getD j 0))
      "|".intercalate ((List.range rs.length).map (fun j =>
        ",".intercalate ((f j).out.map showEvent) ++ (if (f j).stack.isEmpty then " done" else " fuel")))
    | _, _, _ => "bad-op"
  | _ => "bad-op"

def main : IO Unit := mainLoop handle
