import Tahoe.Base.DrvUtil
import Tahoe.Mutable.Race
/-! Driver for C12.

    `race NSH K STORE WRITERS ev ev …`
      STORE   = srv.sh=ver,…  (`-` if empty): the shares present before anybody publishes
      WRITERS = w:ver:expect:goal;…  with expect = N | ver (`Publish._checkstring`), goal = srv.sh+srv.sh+… (`-` none)
      ev      = s:w:srv (the server executes writer w's slot_readv) | w:w:srv.sh (it executes w's test-and-set)
    → wrote flags of the write events in order (T/F string, `-` if none);
      test-vector kind of each write event (E = share must not exist, V = share must hold a given checkstring);
      final store over all slots mentioned (srv.sh=ver, sorted);
      per declared writer `w=outcome/refused/surprised` -/
open Tahoe.Drv Tahoe.Mutable.Race

def parseSlot (t : String) : Option Slot :=
  match t.splitOn "." with
  | [a, b] => do pure (← a.toNat?, ← b.toNat?)
  | _ => none

def parseL {α : Type} (f : String → Option α) (sep : String) (t : String) : Option (List α) :=
  if t == "-" then some [] else (t.splitOn sep).mapM f

def parseStore (t : String) : Option (List (Slot × Ver)) :=
  parseL (fun e => match e.splitOn "=" with
    | [s, v] => do pure (← parseSlot s, ← v.toNat?)
    | _ => none) "," t

structure WDecl where
  w : Nat
  ver : Ver
  expect : Option Ver
  goal : List Slot

def parseWriter (t : String) : Option WDecl :=
  match t.splitOn ":" with
  | [w, v, e, g] => do
    let e' ← if e == "N" then some none else e.toNat?.map some
    pure { w := ← w.toNat?, ver := ← v.toNat?, expect := e', goal := ← parseL parseSlot "+" g }
  | _ => none

def parseEv (t : String) : Option Ev :=
  match t.splitOn ":" with
  | ["s", w, srv] => do pure (.survey (← w.toNat?) (← srv.toNat?))
  | ["w", w, sl] => do pure (.write (← w.toNat?) (← parseSlot sl))
  | _ => none

def lookupStore (l : List (Slot × Ver)) (s : Slot) : Option Ver :=
  match l.find? (fun e => e.1 == s) with
  | some e => some e.2
  | none => none

def ins (lt : α → α → Bool) (a : α) : List α → List α
  | [] => [a]
  | b :: l => if lt a b then a :: b :: l else b :: ins lt a l
def sortBy (lt : α → α → Bool) (l : List α) : List α := l.foldr (ins lt) []
def pairLt (a b : Nat × Nat) : Bool := a.1 < b.1 || (a.1 == b.1 && a.2 < b.2)
def joinOr (sep : String) (l : List String) : String := if l.isEmpty then "-" else sep.intercalate l

/-- run, also collecting the `wrote` flag and the test-vector kind of each write event -/
def runFlags (cfg : Cfg) : St → List Ev → List (Bool × Bool) → St × List (Bool × Bool)
  | st, [], acc => (st, acc.reverse)
  | st, e :: rest, acc =>
    let acc' := match e with
      | .write w slot => (decide (st.store slot = st.seen w slot), (st.seen w slot).isNone) :: acc
      | .survey _ _ => acc
    runFlags cfg (step cfg st e) rest acc'

def showOutcome : Outcome → String
  | .success => "success" | .notEnoughServers => "NotEnoughServersError" | .uncoordinatedWrite => "UncoordinatedWriteError"

def handle : List String → String
  | "race" :: nsh :: k :: store :: writers :: evs =>
    match (do
      let st0 ← parseStore store
      let ws ← parseL parseWriter ";" writers
      let es ← evs.mapM parseEv
      let find (w : Nat) : Option WDecl := ws.find? (fun d => d.w == w)
      let cfg : Cfg := {
        nsh := ← nsh.toNat?, k := ← k.toNat?,
        ver := fun w => match find w with | some d => d.ver | none => 0,
        goal := fun w => match find w with | some d => d.goal | none => [],
        expect := fun w => match find w with | some d => d.expect | none => none }
      -- every event must belong to a declared writer
      if es.any (fun e => match e with | .survey w _ => (find w).isNone | .write w _ => (find w).isNone) then none
      let r := runFlags cfg (St.init (lookupStore st0)) es []
      let fin := r.1
      let slots := (st0.map (·.1) ++ es.filterMap (fun e => match e with | .write _ s => some s | _ => none)).eraseDups
      let storeS := joinOr "," ((sortBy pairLt slots).filterMap (fun s =>
        (fin.store s).map (fun v => s!"{s.1}.{s.2}={v}")))
      let flags := if r.2.isEmpty then "-" else String.ofList (r.2.map (fun b => if b.1 then 'T' else 'F'))
      let kinds := if r.2.isEmpty then "-" else String.ofList (r.2.map (fun b => if b.2 then 'E' else 'V'))
      let outs := joinOr "," (ws.map (fun d =>
        let rf := if fin.refused d.w then "T" else "F"
        let sf := if fin.surprised d.w then "T" else "F"
        s!"{d.w}={showOutcome (outcome cfg fin d.w)}/{rf}/{sf}"))
      pure (flags ++ ";" ++ kinds ++ ";" ++ storeS ++ ";" ++ outs)) with
    | some s => s
    | none => "bad-op"
  | _ => "bad-op"

def main : IO Unit := mainLoop handle
