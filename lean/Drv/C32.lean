import Tahoe.Base.DrvUtil
import Tahoe.StorageClient.Model
import Tahoe.GridManager.DrvParse
import Tahoe.StorageClient.Permute
/-! Driver for C32.

    psi  <preferred> <forUpload> <server>…        → ids of get_servers_for_psi, comma-separated (`-` if none)
    goal <total> <goal> <bad> <server>…           → `none` (NotEnoughServersError) or the new goal `sid.sh,…`

  preferred, bad   `-` or comma-separated server ids
  forUpload        0 | 1
  server           `<id>:<connected 0|1>:<permitted 0|1>:<sha1 hex of psi+seed>` — for `psi` in the
                   iteration order of the frozenset of connected servers, for `goal` in
                   `full_serverlist` order (hash unused there: `0`)
  goal             `-` or comma-separated `<server id>.<shnum>`

    psib <preferred> <forUpload> <storage index hex> <id>:<connected>:<permitted>:<permutation seed hex>…
         → as `psi`, the SHA-1 of storage index + seed computed by the model (`getServersForPsiBytes`)

    hist <keys> <preferred> <forUpload> <time> S <id> <connected> <sha1> <cert|U>… S …
         → ids of get_servers_for_psi at that time after the announcements `S …` in order of arrival
           (`serversAfter`; certificate tokens as in Drv/C33.lean, `U` = undecodable entry) -/
open Tahoe.Drv Tahoe.StorageClient

def hexToNat (s : String) : Option Nat :=
  s.toList.foldlM (fun acc c => (hexVal c).map (fun v => acc * 16 + v)) 0

def parseBool (s : String) : Option Bool :=
  if s == "0" then some false else if s == "1" then some true else none

def parseServer (t : String) : Option Server :=
  match t.splitOn ":" with
  | [i, c, p, h] => do pure ⟨← i.toNat?, ← parseBool c, ← parseBool p, ← hexToNat h⟩
  | _ => none

def parsePairs (t : String) : Option (List (Nat × Nat)) :=
  if t == "-" then some [] else
  (t.splitOn ",").mapM (fun p => match p.splitOn "." with
    | [a, b] => do pure (← a.toNat?, ← b.toNat?)
    | _ => none)

def parseRaw (t : String) : Option RawServer :=
  match t.splitOn ":" with
  | [i, c, p, h] => do pure ⟨← i.toNat?, ← parseBool c, ← parseBool p, ← bytesOfHex h⟩
  | _ => none

def handle : List String → String
  | "psib" :: prefT :: fuT :: psiT :: srvs =>
    match parseNatList prefT, parseBool fuT, bytesOfHex psiT, srvs.mapM parseRaw with
    | some pref, some fu, some psi, some l =>
      let out := (getServersForPsiBytes pref fu psi l).map (fun s => toString s.id)
      if out.isEmpty then "-" else ",".intercalate out
    | _, _, _, _ => "bad-op"
  | "hist" :: rest => Tahoe.GMDrv.handleServers true rest
  | "psi" :: prefT :: fuT :: srvs =>
    match parseNatList prefT, parseBool fuT, srvs.mapM parseServer with
    | some pref, some fu, some l =>
      let out := (getServersForPsi pref fu l).map (fun s => toString s.id)
      if out.isEmpty then "-" else ",".intercalate out
    | _, _, _ => "bad-op"
  | "goal" :: totalT :: goalT :: badT :: srvs =>
    match totalT.toNat?, parsePairs goalT, parseNatList badT, srvs.mapM parseServer with
    | some total, some goal, some bad, some l =>
      match updateGoal total goal bad l with
      | none => "none"
      | some g => if g.isEmpty then "-" else ",".intercalate (g.map (fun e => s!"{e.1}.{e.2}"))
    | _, _, _, _ => "bad-op"
  | _ => "bad-op"

def main : IO Unit := mainLoop handle
