import Tahoe.Base.DrvUtil
import Tahoe.Dir.Edit
/-! Driver for C20 (directory edits).  One history per line:

    `hist <ndirs> <normtable> <op> <op> …`

  names are opaque tokens (lowercase hex of the UTF-8 name, `-` for the empty name);
  normtable = `-` | `raw>norm,raw>norm,…` (`normalize` on the names of this history; identity elsewhere)
  node  = `K.rw.ro.e`      K ∈ f|d|u, rw/ro = hex cap or `-` (None), e ∈ 0|1 (raise_error raises)
  val   = `t<nat>` | `n` | `o<0|1><hex>`   (timestamp | null | other JSON value with its truthiness)
  dict  = `-` | `k=val,k=val,…`            (keys in hex)
  meta  = `N` (None) | `<dict>!<dict>` | `<dict>!X`   (user keys ! 'tahoe' sub-dict or absent)
  ow    = y | n | f          (True | False | ONLY_FILES)
  op    = `S/now/dir/ro/name/node/meta/ow/eager`
        | `C/now/dir/ro/ow/eager/checksro/<entries>`   entries = `-` | `name~node~meta;…`
        | `D/now/dir/ro/name/xyz`                      xyz = must_exist must_be_directory must_be_file
        | `M/now/dir/ro/name/meta`
        | `R/now/dir/ro/cur/dir2/ro2/<new|N>/ow`
        | `G/now/dir/ro/name` | `H/now/dir/ro/name` | `T/now/dir/ro/name`
  output: one token per op, `<result>#<dump of all directories>`. -/
open Tahoe.Drv Tahoe.Dir.Edit

abbrev Nm := String
abbrev Cp := String

def parseBool : String → Option Bool
  | "0" => some false
  | "1" => some true
  | _ => none

def parseOptCap (t : String) : Option (Option Cp) :=
  if t == "-" then some none else some (some t)

def parseNode (t : String) : Option (Node Cp) :=
  match t.splitOn "." with
  | [k, rw, ro, e] => do
    let kind ← (match k with | "f" => some Kind.file | "d" => some Kind.dir | "u" => some Kind.unknown | _ => none)
    pure ⟨kind, ← parseOptCap rw, ← parseOptCap ro, ← parseBool e⟩
  | _ => none

def parseVal (t : String) : Option Val :=
  match t.toList with
  | 't' :: r => (String.ofList r).toNat?.map Val.time
  | ['n'] => some Val.null
  | 'o' :: '0' :: r => some (Val.other false (String.ofList r))
  | 'o' :: '1' :: r => some (Val.other true (String.ofList r))
  | _ => none

/-- keys travel as hex; the model's keys are the decoded strings (so that `"tahoe"`, `"ctime"`,
    `"no-write"`, `"linkcrtime"` are the literal keys of the code) -/
def keyOfHex (h : String) : Option String := do
  let b ← bytesOfHex h
  pure (String.ofList (b.map (fun x => Char.ofNat x.toNat)))

def hexOfKey (k : String) : String :=
  hexOfBytes (k.toList.map (fun c => UInt8.ofNat c.toNat))

def parseDict (t : String) : Option (List (String × Val)) :=
  if t == "-" then some [] else
  (t.splitOn ",").mapM (fun kv => match kv.splitOn "=" with
    | [k, v] => do pure (← keyOfHex k, ← parseVal v)
    | _ => none)

def parseMeta (t : String) : Option (Option Meta) :=
  if t == "N" then some none else
  match t.splitOn "!" with
  | [u, th] => do
    let user ← parseDict u
    if th == "X" then pure (some ⟨user, none⟩) else pure (some ⟨user, some (← parseDict th)⟩)
  | _ => none

def parseOw : String → Option Overwrite
  | "y" => some .yes
  | "n" => some .no
  | "f" => some .onlyFiles
  | _ => none

def parseHandle (d ro : String) : Option Handle := do pure ⟨← d.toNat?, ← parseBool ro⟩

def parseEntries (t : String) : Option (List (Nm × Node Cp × Option Meta)) :=
  if t == "-" then some [] else
  (t.splitOn ";").mapM (fun e => match e.splitOn "~" with
    | [n, nd, md] => do pure (n, ← parseNode nd, ← parseMeta md)
    | _ => none)

def parseOp (t : String) : Option (Nat × Op Nm Cp) :=
  match t.splitOn "/" with
  | ["S", now, d, ro, name, node, md, ow, eager] => do
    pure (← now.toNat?, .setNode (← parseHandle d ro) name (← parseNode node) (← parseMeta md) (← parseOw ow)
      (← parseBool eager))
  | ["C", now, d, ro, ow, eager, cr, entries] => do
    pure (← now.toNat?, .setMany (← parseHandle d ro) (← parseEntries entries) (← parseOw ow) (← parseBool eager)
      (← parseBool cr))
  | ["D", now, d, ro, name, flags] => do
    match flags.toList with
    | [a, b, c] =>
      pure (← now.toNat?, .delete (← parseHandle d ro) name (← parseBool a.toString) (← parseBool b.toString)
        (← parseBool c.toString))
    | _ => none
  | ["M", now, d, ro, name, md] => do
    match ← parseMeta md with
    | some m => pure (← now.toNat?, .setMetadata (← parseHandle d ro) name m)
    | none => none
  | ["R", now, d, ro, cur, d2, ro2, new, ow] => do
    pure (← now.toNat?, .move (← parseHandle d ro) cur (← parseHandle d2 ro2)
      (if new == "N" then none else some new) (← parseOw ow))
  | ["G", now, d, ro, name] => do pure (← now.toNat?, .get (← parseHandle d ro) name)
  | ["H", now, d, ro, name] => do pure (← now.toNat?, .hasChild (← parseHandle d ro) name)
  | ["T", now, d, ro, name] => do pure (← now.toNat?, .getMetadata (← parseHandle d ro) name)
  | _ => none

def parseNorm (t : String) : Option (List (Nm × Nm)) :=
  if t == "-" then some [] else
  (t.splitOn ",").mapM (fun p => match p.splitOn ">" with
    | [a, b] => some (a, b)
    | _ => none)

def normOf (tbl : List (Nm × Nm)) (x : Nm) : Nm := (lookup x tbl).getD x

def showOptCap : Option Cp → String
  | none => "-"
  | some c => c

def showNode (n : Node Cp) : String :=
  (match n.kind with | .file => "f" | .dir => "d" | .unknown => "u") ++ "." ++ showOptCap n.rw ++ "." ++
    showOptCap n.ro ++ "." ++ (if n.err then "1" else "0")

def showVal : Val → String
  | .time t => s!"t{t}"
  | .null => "n"
  | .other b r => "o" ++ (if b then "1" else "0") ++ r

def showDict (d : List (String × Val)) : String :=
  if d.isEmpty then "-" else ",".intercalate (d.map (fun kv => hexOfKey kv.1 ++ "=" ++ showVal kv.2))

def showMeta (m : Meta) : String :=
  showDict m.user ++ "!" ++ (match m.tahoe with | none => "X" | some t => showDict t)

def showErr : Err → String
  | .notWriteable => "NotWriteable"
  | .existingChild => "ExistingChild"
  | .noSuchChild => "NoSuchChild"
  | .wrongType => "ChildOfWrongType"
  | .capError => "CapError"
  | .keyError => "KeyError"
  | .assertion => "Assertion"

def showRes : Res Cp → String
  | .done => "ok"
  | .node none => "node:N"
  | .node (some n) => "node:" ++ showNode n
  | .redundant => "red"
  | .bool b => if b then "bool:1" else "bool:0"
  | .mdata m => "md:" ++ showMeta m
  | .err e => "err:" ++ showErr e

def showChildren (c : Children Nm Cp) : String :=
  if c.isEmpty then "-" else
  ";".intercalate (c.map (fun e => e.1 ++ "~" ++ showNode e.2.1 ++ "~" ++ showMeta e.2.2))

def dump (n : Nat) (s : State Nm Cp) : String :=
  "|".intercalate ((List.range n).map (fun d => showChildren (s d)))

def runOps (norm : Nm → Nm) (n : Nat) (s : State Nm Cp) (acc : List String) : List String → Option (List String)
  | [] => some acc.reverse
  | t :: rest =>
    match parseOp t with
    | none => none
    | some (now, op) =>
      let r := step norm s now op
      runOps norm n r.1 ((showRes r.2 ++ "#" ++ dump n r.1) :: acc) rest

/-- `delretry <normtable> <name> <xyz> <children>;;<children>;;…` : `Deleter.modify` through the retry loop, first on
    the first children list (first_time = True), then on each further one (first_time = False) -/
def childrenOfEntries (l : List (Nm × Node Cp × Option Meta)) : Children Nm Cp :=
  l.filterMap (fun e => match e.2.2 with | some m => some (e.1, (e.2.1, m)) | none => none)

def handleDelRetry (tbl name flags : String) (reads : String) : String :=
  match parseNorm tbl, flags.toList, (reads.splitOn "^").mapM parseEntries with
  | some t, [a, b, c], some (first :: more) =>
    (match parseBool a.toString, parseBool b.toString, parseBool c.toString with
     | some me, some mbd, some mbf =>
       (match retryLoop (fun ft x => deleterModifyFT (normOf t) ft name me mbd mbf x) true
                (childrenOfEntries first) (more.map childrenOfEntries) with
        | .ok (ch, old) => "ok:" ++ (match old with | some n => showNode n | none => "N") ++ "#" ++ showChildren ch
        | .error e => "err:" ++ showErr e)
     | _, _, _ => "bad-op")
  | _, _, _ => "bad-op"

def handle : List String → String
  | ["delretry", tbl, name, flags, reads] => handleDelRetry tbl name flags reads
  | "hist" :: nd :: tbl :: ops =>
    match nd.toNat?, parseNorm tbl with
    | some n, some t =>
      (match runOps (normOf t) n (fun _ => []) [] ops with
       | some outs => " ".intercalate outs
       | none => "bad-op")
    | _, _ => "bad-op"
  | _ => "bad-op"

def main : IO Unit := mainLoop handle
