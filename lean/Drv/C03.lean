import Tahoe.Base.DrvUtil
import Tahoe.Immutable.FetchShow
/-! Driver for C03 (SegmentFetcher event system).
    `fetch K ev ev …` with ev ∈
      a:ID.SHNUM.SERVER.RTT,ID.SHNUM.SERVER.RTT,…   add_shares (`a:-` = empty list)
      n                                             no_more_shares
      s:ID:ST   ST ∈ O|C|X|D|B                       _block_request_activity(OVERDUE|COMPLETE|CORRUPT|DEAD|BADSEGNUM)
                                                    for the announced share ID
      b                                             node now answers get_num_segments() = (n ≤ segnum, True)
      l                                             one queued loop runs
      x                                             stop()
    Output: after every event a digest of the fetcher
      `calls|unused|outstanding|active|overdue|blocks|max|nomore|running|pending|verdict`
    (calls = start=ID / want / exc=… made during this event, lists of share ids, blocks as SHNUM=ID),
    events separated by `;`. -/
open Tahoe.Drv Tahoe.Fetch



def handle : List String → String
  | "fetch" :: k :: evs =>
    match k.toNat? with
    | some k => match DrvFetch.runEvs (init k) [] [] evs with
      | some outs => if outs.isEmpty then "-" else ";".intercalate outs
      | none => "bad-op"
    | none => "bad-op"
  | _ => "bad-op"

def main : IO Unit := mainLoop handle
