import Tahoe.Base.DrvUtil
import Tahoe.Immutable.FetchShow
import Tahoe.Immutable.Finder
/-! Driver for C03 (SegmentFetcher event system).
    `fetch K ev ev …` with ev ∈
      a:ID.SHNUM.SERVER.RTT,ID.SHNUM.SERVER.RTT,…   add_shares (`a:-` = empty list)
      n                                             no_more_shares
      s:ID:ST   ST ∈ O|C|X|D|B                       _block_request_activity(OVERDUE|COMPLETE|CORRUPT|DEAD|BADSEGNUM)
                                                    for the announced share ID
      b                                             node now answers get_num_segments() = (n ≤ segnum, True)
      l                                             one queued loop runs
      x                                             stop()
    Output: after every event a digest of the fetcher
      `calls|unused|outstanding|active|overdue|blocks|max|nomore|running|pending|verdict`
    (calls = start=ID / want / exc=… made during this event, lists of share ids, blocks as SHNUM=ID),
    events separated by `;`. -/
open Tahoe.Drv Tahoe.Fetch



/-! `finder MAX SERVERS ev …` — ShareFinder (SERVERS = comma list of server numbers in permuted order, `-` = none); ev ∈
      h            hungry()                      l          one queued loop runs
      r:REQ:SHNUMS the get_buckets of request REQ answers with shares SHNUMS (`-` = no shares)
      e:REQ        it fails                      o:REQ      its overdue timer fires          x   stop()
    Output after every event: `calls|running|hungry|servers-left|exhausted|pending|overdue|timers|loops`. -/
namespace DrvFinder
open Tahoe.Finder

def showFOut : FOut → String
  | .send srv req => s!"send={srv}.{req}"
  | .gotShares srv shnums => s!"shares={srv}:" ++ "+".intercalate (shnums.map toString)
  | .noMoreShares => "nomore"
  | .exc => "exc"

def parseFEv (t : String) : Option FEv :=
  match t.splitOn ":" with
  | ["h"] => some .hungry
  | ["l"] => some .turn
  | ["r", q, l] => do pure (.response (← q.toNat?) (← parseNatList l))
  | ["e", q] => do pure (.error (← q.toNat?))
  | ["o", q] => do pure (.overdue (← q.toNat?))
  | ["x"] => some .stop
  | _ => none

def fdigest (s : Finder) : String :=
  let calls := if s.out.isEmpty then "-" else ",".intercalate (s.out.map showFOut)
  "|".intercalate [calls, DrvFetch.b2s s.running, DrvFetch.b2s s.hungry, DrvFetch.showIds s.servers, DrvFetch.b2s s.exhausted,
    DrvFetch.showIds (s.pending.map (·.1)), DrvFetch.showIds (DrvFetch.sortNat s.overdue), DrvFetch.showIds (DrvFetch.sortNat s.timers),
    toString s.loops]

def runFEvs (s : Finder) (acc : List String) : List String → Option (List String)
  | [] => some acc.reverse
  | t :: rest =>
    match parseFEv t with
    | none => none
    | some e =>
      let s' := step { s with out := [] } e
      runFEvs s' (fdigest s' :: acc) rest

end DrvFinder

def handle : List String → String
  | "fetch" :: k :: evs =>
    match k.toNat? with
    | some k => match DrvFetch.runEvs (init k) [] [] evs with
      | some outs => if outs.isEmpty then "-" else ";".intercalate outs
      | none => "bad-op"
    | none => "bad-op"
  | "finder" :: mx :: srv :: evs =>
    match mx.toNat?, parseNatList srv with
    | some mx, some srv => match DrvFinder.runFEvs { maxOutstanding := mx, servers := srv } [] evs with
      | some outs => if outs.isEmpty then "-" else ";".intercalate outs
      | none => "bad-op"
    | _, _ => "bad-op"
  | _ => "bad-op"

def main : IO Unit := mainLoop handle
